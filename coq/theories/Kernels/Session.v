(** Kernels/Session.v — model for C09: what outlives a render, and what does not.

    Two layers of state, transcribed from the code the property anchors:

    * the PROCESS-LEVEL state [sess]: every [Environment] (its filter
      register, its globals, its loader with the loader's cache of shared
      [Template] objects and their mutable [global_data]), every [Template]
      object the caller holds ([from_string] / non-caching [get_template]), and
      the clock read by [BuiltIn] (context.py:469-480) and by the [date] filter
      (builtin/filters/misc.py:61-113, after the fix that removed its
      [functools.lru_cache]: no memo survives, so none is modelled);
    * the PER-RENDER state [rctx] that [Template.render] builds from nothing on
      every call (template.py:78-102 -> RenderContext.__init__,
      context.py:63-111): locals, counters, the tag namespace (cycles, stop
      indexes of [offset: continue], macros, block stacks), the scope.

    A small program language exercises exactly that state; each [op] prints to
    one Liquid construct (harness/c09.py [src_of]).  [run_gen] transcribes the
    [render_to_output] of those constructs; the only thing it can reach outside
    [rctx] is the loader (through [include] / [extends]) and the two fault
    counters of the harness (k-th data access, k-th loader call).

    Scope of the model (stated as assumptions in the evidence): loader contents
    and tag registers are fixed when an environment is created; caches never
    evict (C14 covers eviction, reload and staleness); resource limits are
    off; variable names avoid [args kwargs block forloop translations].

    Model file: definitions only.  Proofs: Proofs/Session_proofs.v. *)
From LQ Require Export Base.Str.

(** * Values *)

Inductive val :=
| VStr (s : str) (safe : bool)      (* str, or markupsafe.Markup when [safe] *)
| VInt (z : Z)
| VList (l : list str)              (* a list of plain strings *)
| VTime (date_only : bool) (k : N)  (* datetime.now() / date.today() at clock k *)
| VDrop (items : list (str * str))  (* the harness' drop: counted __getitem__ *)
| VUndef.                           (* liquid2.Undefined *)

Definition gmap := list (str * val).

Inductive expr := ELit (s : str) | EVar (x : str).

Inductive op :=
| Text (s : str)                        (* literal template text *)
| Emit (x : str)                        (* {{ x }} *)
| EmitFilt (x f : str)                  (* {{ x | f }} *)
| EmitField (k : str)                   (* {{ d.k }}: data access, fault point *)
| Incr (x : str)                        (* {% increment x %} *)
| Decr (x : str)                        (* {% decrement x %} *)
| Cycle (g : str) (items : list str)    (* {% cycle g: 'a', 'b' %} *)
| ForCont (arr : str) (limit : nat)     (* {% for v in arr limit: n offset: continue %}{{ v }},{% endfor %} *)
| ForAll (arr : str)                    (* {% for v in arr %}{{ v }},{% endfor %} *)
| Assign (x : str) (e : expr)           (* {% assign x = e %} *)
| Capture (x : str) (body : list op)    (* {% capture x %}body{% endcapture %} *)
| DefMacro (m : str) (body : list op)   (* {% macro m a %}body{% endmacro %} *)
| CallMacro (m : str) (e : expr)        (* {% call m e %} *)
| DateNow (today : bool) (fmt : expr)   (* {{ 'now' | date: fmt }} / {{ 'today' | date: fmt }} *)
| DateOf (s : str) (fmt : expr)         (* {{ 's' | date: fmt }}: a date string that names only part of a date *)
| Translate (x : str)                   (* {% translate %}Hi {{ x }}{% endtranslate %} *)
| Include (name : str)                  (* {% include 'name' %} *)
| Extends (name : str)                  (* {% extends 'name' %} *)
| Block (name : str) (body : list op)   (* {% block name %}body{% endblock %} *)
| RenderP (name : str)                  (* {% render 'name' %} *)
| Broken (n : nat)                      (* the n-th malformed tag of the harness: from_string raises LiquidSyntaxError *)
| Fail.                                 (* {{ 1 | divided_by: 0 }}: raises mid-render *)

Definition prog := list op.

(** * Strings: decimal numerals, html escape, ASCII upper, strftime *)

Fixpoint dec_aux (fuel : nat) (n : N) (acc : str) : str :=
  match fuel with
  | O => acc
  | S f =>
      let d := (48 + n mod 10)%N in
      if (n <? 10)%N then d :: acc else dec_aux f (n / 10)%N (d :: acc)
  end.

Definition dec_N (n : N) : str := dec_aux (S (N.size_nat n)) n [].

Definition dec_Z (z : Z) : str :=
  if (z <? 0)%Z then 45%N :: dec_N (Z.abs_N z) else dec_N (Z.to_N z).

Definition s_of (l : list N) : str := l.

(** markupsafe.escape: ampersand, less-than, greater-than, single and double quote *)
Definition esc1 (c : N) : str :=
  if (c =? 38)%N then [38;97;109;112;59]%N            (* &amp; *)
  else if (c =? 60)%N then [38;108;116;59]%N          (* &lt; *)
  else if (c =? 62)%N then [38;103;116;59]%N          (* &gt; *)
  else if (c =? 39)%N then [38;35;51;57;59]%N         (* &#39; *)
  else if (c =? 34)%N then [38;35;51;52;59]%N         (* &#34; *)
  else [c].

Definition escape (s : str) : str := flat_map esc1 s.

(** str.upper() on ASCII text (the tie uses ASCII only). *)
Definition up1 (c : N) : N := if ((97 <=? c) && (c <=? 122))%N then (c - 32)%N else c.
Definition upper (s : str) : str := map up1 s.

(** The harness' clock: tick k is Saturday 2000-12-30 12:00:00 plus k days, so
    the first ticks cross midnight, a month boundary and a year boundary.  The
    text of a date / datetime below is exact for k <= 32 (the tie never
    advances the clock further; the theorems do not depend on it). *)
Definition pad2 (n : N) : str := if (n <? 10)%N then 48%N :: dec_N n else dec_N n.
Definition year_str (k : N) : str :=
  if (k <? 2)%N then [50;48;48;48]%N else [50;48;48;49]%N.          (* 2000 / 2001 *)
Definition date_str (k : N) : str :=
  if (k <? 2)%N then [50;48;48;48;45;49;50;45]%N ++ dec_N (30 + k)   (* 2000-12-30, 2000-12-31 *)
  else [50;48;48;49;45;48;49;45]%N ++ pad2 (k - 1).                  (* 2001-01-dd *)

(** The date strings of the tie and what dateutil's parser makes of them with
    the fields they do not name taken from the clock (filters/misc.py date():
    'now' / 'today' are datetime.now(); anything else goes through
    dateutil.parser.parse, whose default is datetime.now() at midnight; a string
    it cannot parse is returned unchanged). *)
Definition s_now : str := [110;111;119]%N.
Definition s_today : str := [116;111;100;97;121]%N.
Definition s_1030 : str := [49;48;58;51;48]%N.                          (* 10:30 *)
Definition s_march3 : str := [77;97;114;99;104;32;51]%N.                (* March 3 *)
Definition s_friday : str := [70;114;105;100;97;121;32;57;97;109]%N.    (* Friday 9am *)

Definition date_of_string (s : str) (k : N) : option str :=
  if str_eqb s s_now || str_eqb s s_today || str_eqb s s_1030 then Some (date_str k)
  else if str_eqb s s_march3 then Some (year_str k ++ [45;48;51;45;48;51]%N)     (* -03-03 *)
  else if str_eqb s s_friday then Some (date_str (k + (6 + 7 - k mod 7) mod 7))  (* the Friday on or after today *)
  else None.

Definition noon : str := [32;49;50;58;48;48;58;48;48]%N.   (* _12:00:00 *)
Definition ymd : str := [37;89;45;37;109;45;37;100]%N.   (* "%Y-%m-%d" *)

Fixpoint prefix_of (p s : str) : option str :=
  match p, s with
  | [], _ => Some s
  | a :: p', b :: s' => if N.eqb a b then prefix_of p' s' else None
  | _ :: _, [] => None
  end.

(** strftime over the formats of the tie: the directive sequence "%Y-%m-%d"
    (the only one the harness uses) becomes the date; every other
    character is copied. *)
Fixpoint strftime (fuel : nat) (fmt : str) (ds : str) : str :=
  match fuel with
  | O => []
  | S f =>
      match fmt with
      | [] => []
      | c :: rest =>
          match prefix_of ymd fmt with
          | Some rest' => ds ++ strftime f rest' ds
          | None => c :: strftime f rest ds
          end
      end
  end.

(** * to_liquid_string (stringify.py:15-43) *)

Definition drop_str : str := [60;100;114;111;112;62]%N.   (* "<drop>", Drop.__str__ *)

(** [auto_escape=False]: plain conversion. *)
Definition to_plain (v : val) : str :=
  match v with
  | VStr s _ => s
  | VInt z => dec_Z z
  | VList l => concat l
  | VTime true k => date_str k                     (* str(date) *)
  | VTime false k => date_str k ++ noon           (* str(datetime) *)
  | VDrop _ => drop_str
  | VUndef => []
  end.

Definition to_s (auto : bool) (v : val) : str :=
  if auto then
    match v with
    | VStr s true => s
    | VList l => concat (map escape l)
    | _ => escape (to_plain v)
    end
  else to_plain v.

Definition is_safe (v : val) : bool := match v with VStr _ b => b | _ => false end.

(** * Filters *)

Inductive fbeh := FUp | FBang | FDate.
(* FUp: builtin upcase (filters/string.py:148-151).
   FBang: the harness' custom filter  lambda v, *a: (v if isinstance(v, str) else "") + "!".
   FDate: builtin date (filters/misc.py:61-113). *)

Definition bang : str := [33]%N.

Definition apply_filter (b : fbeh) (auto : bool) (clk : N) (v : val) (args : list val)
  : res val :=
  match b with
  | FUp =>
      match args with
      | [] => Ok (VStr (upper (to_plain v)) (is_safe v))
      | _ => LErr LiquidTypeError None      (* TypeError wrapped by the filter call *)
      end
  | FBang =>
      match v with
      | VStr s safe => Ok (VStr (s ++ bang) safe)
      | _ => Ok (VStr bang false)
      end
  | FDate =>
      match args with
      | [f] =>
          match v with
          | VUndef => Ok (VStr [] false)
          | VStr dat _ =>
              match f with
              | VUndef => Ok (VStr dat false)       (* is_undefined(fmt): str(dat) *)
              | _ =>
                  match date_of_string dat clk with
                  | None => Ok (VStr dat false)     (* ParserError: the input, unchanged *)
                  | Some ds =>
                      match f with
                      | VStr fs fsafe => Ok (VStr (strftime (S (length fs)) fs ds) (auto && fsafe))
                      | _ => LErr LiquidTypeError None   (* strftime() argument 1 must be str *)
                      end
                  end
              end
          | _ => LErr LiquidTypeError None
          end
      | _ => LErr LiquidTypeError None
      end
  end.

(** * The render context (context.py:63-111) *)

Inductive frame :=
| FMap (m : gmap)
| FBuiltin                          (* context.py:469-489: now / today read the clock *)
| FCounters (c : list (str * Z)).

Definition cyckey := (str * list str)%type.

Record rctx := {
  r_locals : gmap;                               (* self.locals *)
  r_globals : list frame;                        (* self.globals *)
  r_root : list frame;                           (* self.root_globals *)
  r_counters : list (str * Z);                   (* self.counters *)
  r_cycles : list (cyckey * nat);                (* tag_namespace["cycles"] *)
  r_stop : list (str * nat);                     (* tag_namespace["stopindex"] *)
  r_macros : list (str * list op);               (* tag_namespace["macros"] *)
  r_extends : list (str * list (list op));       (* tag_namespace["extends"] *)
  r_disabled : list str;                         (* self.disabled_tags *)
  r_out : str;                                   (* the output buffer *)
  r_depth : nat                                  (* self._copy_depth *)
}.

(** RenderContext.__init__: everything but globals / disabled_tags starts empty. *)
Definition fresh_ctx (globals root : list frame) (disabled : list str) (out : str) (depth : nat) : rctx :=
  {| r_locals := []; r_globals := globals; r_root := root; r_counters := [];
     r_cycles := []; r_stop := []; r_macros := []; r_extends := [];
     r_disabled := disabled; r_out := out; r_depth := depth |}.

Definition set_locals r x := {| r_locals := x; r_globals := r_globals r; r_root := r_root r;
  r_counters := r_counters r; r_cycles := r_cycles r; r_stop := r_stop r; r_macros := r_macros r;
  r_extends := r_extends r; r_disabled := r_disabled r; r_out := r_out r; r_depth := r_depth r |}.
Definition set_counters r x := {| r_locals := r_locals r; r_globals := r_globals r; r_root := r_root r;
  r_counters := x; r_cycles := r_cycles r; r_stop := r_stop r; r_macros := r_macros r;
  r_extends := r_extends r; r_disabled := r_disabled r; r_out := r_out r; r_depth := r_depth r |}.
Definition set_cycles r x := {| r_locals := r_locals r; r_globals := r_globals r; r_root := r_root r;
  r_counters := r_counters r; r_cycles := x; r_stop := r_stop r; r_macros := r_macros r;
  r_extends := r_extends r; r_disabled := r_disabled r; r_out := r_out r; r_depth := r_depth r |}.
Definition set_stop r x := {| r_locals := r_locals r; r_globals := r_globals r; r_root := r_root r;
  r_counters := r_counters r; r_cycles := r_cycles r; r_stop := x; r_macros := r_macros r;
  r_extends := r_extends r; r_disabled := r_disabled r; r_out := r_out r; r_depth := r_depth r |}.
Definition set_macros r x := {| r_locals := r_locals r; r_globals := r_globals r; r_root := r_root r;
  r_counters := r_counters r; r_cycles := r_cycles r; r_stop := r_stop r; r_macros := x;
  r_extends := r_extends r; r_disabled := r_disabled r; r_out := r_out r; r_depth := r_depth r |}.
Definition set_extends r x := {| r_locals := r_locals r; r_globals := r_globals r; r_root := r_root r;
  r_counters := r_counters r; r_cycles := r_cycles r; r_stop := r_stop r; r_macros := r_macros r;
  r_extends := x; r_disabled := r_disabled r; r_out := r_out r; r_depth := r_depth r |}.
Definition set_out r x := {| r_locals := r_locals r; r_globals := r_globals r; r_root := r_root r;
  r_counters := r_counters r; r_cycles := r_cycles r; r_stop := r_stop r; r_macros := r_macros r;
  r_extends := r_extends r; r_disabled := r_disabled r; r_out := x; r_depth := r_depth r |}.

(** RenderContext.copy(): `if self._copy_depth > self.env.context_depth_limit` (30). *)
Definition depth_exceeded (r : rctx) : bool := Nat.ltb 30 (r_depth r).

Definition out (r : rctx) (s : str) : rctx := set_out r (r_out r ++ s).

(** self.scope = ReadOnlyChainMap(locals, globals, builtin, counters)
    (context.py:90-95).  Namespaces pushed by extend() hold nothing the
    programs of this model read, so they are not represented. *)
Definition scope (r : rctx) : list frame :=
  FMap (r_locals r) :: r_globals r ++ [FBuiltin; FCounters (r_counters r)].

Fixpoint lookup_frames (clk : N) (fs : list frame) (x : str) : val :=
  match fs with
  | [] => VUndef
  | FMap m :: fs' =>
      match assoc x m with Some v => v | None => lookup_frames clk fs' x end
  | FBuiltin :: fs' =>
      if str_eqb x s_now then VTime false clk
      else if str_eqb x s_today then VTime true clk
      else lookup_frames clk fs' x
  | FCounters c :: fs' =>
      match assoc x c with Some z => VInt z | None => lookup_frames clk fs' x end
  end.

Definition lookup (clk : N) (r : rctx) (x : str) : val := lookup_frames clk (scope r) x.

(** * Per-render environment: what a render reads from its Environment *)

Record renv := {
  x_auto : bool;                      (* env.auto_escape *)
  x_filters : list (str * fbeh);      (* env.filters at render time *)
  x_clock : N;
  x_facc : option nat;                (* the drop raises on its k-th __getitem__ *)
  x_flds : option nat                 (* the loader raises on its k-th load() *)
}.

Definition eval (X : renv) (r : rctx) (e : expr) : val :=
  match e with
  | ELit s => VStr s (x_auto X)       (* string literals are Markup under auto-escape *)
  | EVar x => lookup (x_clock X) r x
  end.

Definition comma : str := [44]%N.
Definition s_d : str := [100]%N.
Definition s_v : str := [118]%N.
Definition s_a : str := [97]%N.
Definition s_args : str := [97;114;103;115]%N.
Definition s_kwargs : str := [107;119;97;114;103;115]%N.
Definition s_braces : str := [123;125]%N.
Definition s_hi : str := [72;105;32]%N.        (* "Hi " *)
Definition s_date : str := [100;97;116;101]%N.
Definition s_include : str := [105;110;99;108;117;100;101]%N.
Definition s_block : str := [98;108;111;99;107]%N.
Definition s_dash : str := [45]%N.

Fixpoint cyc_get (k : cyckey) (l : list (cyckey * nat)) : nat :=
  match l with
  | [] => 0
  | (k', n) :: l' =>
      if str_eqb (fst k) (fst k') && list_eqb str_eqb (snd k) (snd k') then n else cyc_get k l'
  end.

Fixpoint cyc_set (k : cyckey) (n : nat) (l : list (cyckey * nat)) : list (cyckey * nat) :=
  match l with
  | [] => [(k, n)]
  | (k', n') :: l' =>
      if str_eqb (fst k) (fst k') && list_eqb str_eqb (snd k) (snd k') then (k, n) :: l'
      else (k', n') :: cyc_set k n l'
  end.

Definition get_or {V} (d : V) (o : option V) : V := match o with Some v => v | None => d end.

(** LoopExpression._to_iter (builtin/expressions.py): what a for loop iterates. *)
Definition loop_items (v : val) : res (list val) :=
  match v with
  | VList l => Ok (map (fun s => VStr s false) l)
  | VStr s _ => Ok (map (fun c => VStr [c] false) s)
  | VUndef => Ok []
  | _ => LErr LiquidTypeError None
  end.

Definition emit_items (auto : bool) (r : rctx) (items : list val) : rctx :=
  out r (flat_map (fun v => to_s auto v ++ comma) items).

(** The operations that touch nothing but the render context. *)
Definition simple_op (X : renv) (o : op) (r : rctx) : res rctx :=
  let auto := x_auto X in
  let clk := x_clock X in
  match o with
  | Text s => Ok (out r s)
  | Emit x => Ok (out r (to_s auto (lookup clk r x)))
  | EmitFilt x f =>
      match assoc f (x_filters X) with
      | None => LErr UnknownFilterError None        (* context.py filter() *)
      | Some b =>
          do v <- apply_filter b auto clk (lookup clk r x) [] ;;
          Ok (out r (to_s auto v))
      end
  | Incr x =>                                        (* context.py increment() *)
      let c := get_or 0%Z (assoc x (r_counters r)) in
      Ok (out (set_counters r (dict_set x (c + 1)%Z (r_counters r))) (dec_Z c))
  | Decr x =>                                        (* context.py decrement() *)
      let c := (get_or 0%Z (assoc x (r_counters r)) - 1)%Z in
      Ok (out (set_counters r (dict_set x c (r_counters r))) (dec_Z c))
  | Cycle g items =>                                 (* context.py cycle() *)
      match items with
      | [] => PyExc ZeroDivisionError                (* unreachable: the parser wants an item *)
      | _ =>
          let idx := cyc_get (g, items) (r_cycles r) in
          let r' := set_cycles r (cyc_set (g, items) (S idx) (r_cycles r)) in
          Ok (out r' (nth (idx mod length items) items []))
      end
  | ForCont arr limit =>                             (* LoopExpression._slice, offset: continue *)
      do items <- loop_items (lookup clk r arr) ;;
      let key := s_v ++ s_dash ++ arr in
      let offset := get_or 0 (assoc key (r_stop r)) in
      let length0 := length items - offset in        (* max(length - offset, 0) *)
      let len := Nat.min length0 limit in
      let stop := offset + len in
      let r' := set_stop r (dict_set key stop (r_stop r)) in
      Ok (emit_items auto r' (firstn len (skipn offset items)))
  | ForAll arr =>                                    (* no limit, no offset *)
      do items <- loop_items (lookup clk r arr) ;;
      let key := s_v ++ s_dash ++ arr in
      let r' := set_stop r (dict_set key (length items) (r_stop r)) in
      Ok (emit_items auto r' items)
  | Assign x e => Ok (set_locals r (dict_set x (eval X r e) (r_locals r)))
  | DefMacro m body => Ok (set_macros r (dict_set m body (r_macros r)))
  | DateNow today fmt =>
      match assoc s_date (x_filters X) with
      | None => LErr UnknownFilterError None
      | Some b =>
          do v <- apply_filter b auto clk (VStr (if today then s_today else s_now) auto)
                    [eval X r fmt] ;;
          Ok (out r (to_s auto v))
      end
  | DateOf ds fmt =>
      match assoc s_date (x_filters X) with
      | None => LErr UnknownFilterError None
      | Some b =>
          do v <- apply_filter b auto clk (VStr ds auto) [eval X r fmt] ;;
          Ok (out r (to_s auto v))
      end
  | Translate x => Ok (out r (s_hi ++ to_s auto (lookup clk r x)))
  | Fail => LErr LiquidTypeError None                (* can't divide by 0 *)
  | _ => Ok r                                        (* handled by run_gen *)
  end.

(** * Static structure used by extends (extends_tag.py _find_inheritance_nodes) *)

Fixpoint blocks_of_op (fuel : nat) (o : op) : list (str * list op) :=
  match fuel with
  | O => []
  | S f =>
      match o with
      | Block n body => (n, body) :: flat_map (blocks_of_op f) body
      | Capture _ body | DefMacro _ body => flat_map (blocks_of_op f) body
      | _ => []
      end
  end.

Fixpoint extends_of_op (fuel : nat) (o : op) : list str :=
  match fuel with
  | O => []
  | S f =>
      match o with
      | Extends n => [n]
      | Block _ body | Capture _ body | DefMacro _ body => flat_map (extends_of_op f) body
      | _ => []
      end
  end.

Fixpoint has_dup (l : list str) : bool :=
  match l with [] => false | x :: l' => mem_str x l' || has_dup l' end.

(** _store_blocks: append each block of the template to its stack. *)
Fixpoint store_blocks (bs : list (str * list op)) (st : list (str * list (list op)))
  : list (str * list (list op)) :=
  match bs with
  | [] => st
  | (n, body) :: bs' =>
      store_blocks bs' (dict_set n (get_or [] (assoc n st) ++ [body]) st)
  end.

(** * The loader seen from a render *)

Definition cachet := list (str * gmap).     (* cached template name -> its global_data *)

Record lst := { l_cache : cachet; l_acc : nat; l_lds : nat }.

Definition opt_is (o : option nat) (n : nat) : bool :=
  match o with Some k => Nat.eqb k n | None => false end.

(** Computations that thread the loader state and may raise. *)
Definition M (A : Type) : Type := (res A * lst)%type.

Definition bindL {A B} (x : M A) (f : A -> lst -> M B) : M B :=
  match x with
  | (Ok a, L) => f a L
  | (LErr c p, L) => (LErr c p, L)
  | (PyExc k, L) => (PyExc k, L)
  | (OutOfFuel, L) => (OutOfFuel, L)
  end.

Definition static_depth : nat := 50.

Section Run.
(** [ld cache name]: what [env.get_template(name, context=ctx)] gives and what
    it does to the loader's cache. *)
Variable ld : cachet -> str -> res prog * cachet.
Variable X : renv.

(** One counted loader call. *)
Definition load_counted (L : lst) (name : str) : M prog :=
  let n := S (l_lds L) in
  if opt_is (x_flds X) n then
    (PyExc OtherPyError, {| l_cache := l_cache L; l_acc := l_acc L; l_lds := n |})
  else
    (fst (ld (l_cache L) name),
     {| l_cache := snd (ld (l_cache L) name); l_acc := l_acc L; l_lds := n |}).

(** _build_block_stacks: walk the chain of parents, stacking blocks. *)
Fixpoint build_stacks (fuel : nat) (t : prog) (seen : list str)
  (st : list (str * list (list op))) (L : lst)
  : M (prog * list (str * list (list op))) :=
  match fuel with
  | O => (OutOfFuel, L)
  | S f =>
      let exts := flat_map (extends_of_op static_depth) t in
      let blocks := flat_map (blocks_of_op static_depth) t in
      if Nat.ltb 1 (length exts) then (LErr TemplateInheritanceError None, L)
      else if has_dup (map fst blocks) then (LErr TemplateInheritanceError None, L)
      else
        let st' := store_blocks blocks st in
        match exts with
        | [] => (Ok (t, st'), L)
        | pn :: _ =>
            if mem_str pn seen then (LErr TemplateInheritanceError None, L)
            else bindL (load_counted L pn)
                   (fun parent L1 => build_stacks f parent (pn :: seen) st' L1)
        end
  end.

(** render_with_context / node.render for every op.  Returns the context and
    whether StopRender is propagating. [cur] is context.template. *)
Fixpoint run_gen (fuel : nat) (cur : prog) (p : prog) (L : lst) (r : rctx)
  : M (rctx * bool) :=
  match fuel with
  | O => (OutOfFuel, L)
  | S f =>
      match p with
      | [] => (Ok (r, false), L)
      | o :: rest =>
          (* go on with the rest of the block unless StopRender is propagating *)
          let k (rb : rctx * bool) (L1 : lst) : M (rctx * bool) :=
            if snd rb then (Ok rb, L1) else run_gen f cur rest L1 (fst rb) in
          match o with
          | EmitField key =>
              match lookup (x_clock X) r s_d with
              | VDrop items =>
                  let n := S (l_acc L) in
                  let L1 := {| l_cache := l_cache L; l_acc := n; l_lds := l_lds L |} in
                  if opt_is (x_facc X) n then (PyExc OtherPyError, L1)
                  else
                    k (out r (match assoc key items with
                              | Some s => to_s (x_auto X) (VStr s false)
                              | None => []
                              end), false) L1
              | _ => k (r, false) L            (* TypeError / KeyError -> undefined *)
              end
          | Capture x body =>                    (* capture_tag.py *)
              bindL (run_gen f cur body L (set_out r []))
                (fun rb L1 =>
                   let r1 := fst rb in
                   if snd rb then (Ok (set_out r1 (r_out r), true), L1)
                   else k (set_out (set_locals r1 (dict_set x (VStr (r_out r1) (x_auto X)) (r_locals r1)))
                             (r_out r), false) L1)
          | CallMacro m e =>                     (* macro_tag.py CallNode *)
              match assoc m (r_macros r) with
              | None => k (r, false) L           (* str(undefined) *)
              | Some body =>
                  let ns := [(s_args, VList []); (s_kwargs, VStr s_braces false);
                             (s_a, eval X r e)] in
                  (* context.copy(): a new context over the template's root globals; the body
                     gets a COPY of the registry of macros (a macro may call another macro or
                     itself, up to the context depth limit; a macro defined inside the body is
                     not visible to the caller) *)
                  if depth_exceeded r then (LErr ContextDepthError None, L)
                  else
                    let sub := set_macros (fresh_ctx (FMap ns :: r_root r) (r_root r)
                                             [s_include; s_block] (r_out r) (S (r_depth r)))
                                 (r_macros r) in
                    bindL (run_gen f cur body L sub)
                      (fun rb L1 => k (set_out r (r_out (fst rb)), snd rb) L1)
              end
          | Include name =>                      (* include_tag.py *)
              if mem_str s_include (r_disabled r) then (LErr DisabledTagError None, L)
              else
                bindL (load_counted L name)
                  (fun t L1 => bindL (run_gen f t t L1 r) (fun rb L2 => k (fst rb, false) L2))
          | RenderP name =>                      (* render_tag.py: context.copy(), `include` disabled *)
              bindL (load_counted L name)
                (fun t L1 =>
                   if depth_exceeded r then (LErr ContextDepthError None, L1)
                   else
                     let sub := fresh_ctx (FMap [] :: r_root r) (r_root r) [s_include] (r_out r)
                                  (S (r_depth r)) in
                     bindL (run_gen f t t L1 sub)
                       (fun rb L2 => k (set_out r (r_out (fst rb)), false) L2))
          | Extends _ =>                         (* extends_tag.py ExtendsNode *)
              bindL (build_stacks f cur [] (r_extends r) L)
                (fun bs L1 =>
                   bindL (run_gen f (fst bs) (fst bs) L1 (set_extends r (snd bs)))
                     (fun rb L2 => (Ok (set_extends (fst rb) [], true), L2)))
          | Block name body =>                   (* extends_tag.py BlockNode *)
              if mem_str s_block (r_disabled r) then (LErr DisabledTagError None, L)
              else
                match get_or [] (assoc name (r_extends r)) with
                | [] => bindL (run_gen f cur body L r) k
                | b0 :: _ =>
                    (* context.copy(block_scope=True): a block is part of the page it is
                       rendered in.  The copy has its own (empty) locals over the current
                       scope, and SHARES the tag namespace (cycles, stop indexes, macros,
                       block stacks) and the counters with the context it is copied from;
                       tags disabled here stay disabled.  The shared counters are the last
                       map of the copy's own scope, so the frame list it looks through
                       first is the current scope without its counters map. *)
                    if depth_exceeded r then (LErr ContextDepthError None, L)
                    else
                    let sub :=
                      {| r_locals := [];
                         r_globals := FMap [] :: FMap (r_locals r) :: r_globals r ++ [FBuiltin];
                         r_root := r_root r; r_counters := r_counters r; r_cycles := r_cycles r;
                         r_stop := r_stop r; r_macros := r_macros r; r_extends := r_extends r;
                         r_disabled := r_disabled r; r_out := r_out r; r_depth := S (r_depth r) |} in
                    bindL (run_gen f cur b0 L sub)
                      (fun rb L1 =>
                         let s1 := fst rb in
                         k ({| r_locals := r_locals r; r_globals := r_globals r; r_root := r_root r;
                               r_counters := r_counters s1; r_cycles := r_cycles s1; r_stop := r_stop s1;
                               r_macros := r_macros s1; r_extends := r_extends s1;
                               r_disabled := r_disabled r; r_out := r_out s1; r_depth := r_depth r |}, snd rb) L1)
                end
          | _ => bindL (simple_op X o r, L) (fun r1 L1 => k (r1, false) L1)
          end
      end
  end.

(** Static analysis (static_analysis.py _analyze): the variable roots read by
    the template and by every partial it loads. *)
Definition expr_vars (e : expr) : list str := match e with EVar x => [x] | ELit _ => [] end.

Definition bindC {A B} (x : res A * cachet) (f : A -> cachet -> res B * cachet) : res B * cachet :=
  match x with
  | (Ok a, c) => f a c
  | (LErr cl p, c) => (LErr cl p, c)
  | (PyExc k, c) => (PyExc k, c)
  | (OutOfFuel, c) => (OutOfFuel, c)
  end.

Fixpoint collect_gen (fuel : nat) (p : prog) (c : cachet) : res (list str) * cachet :=
  match fuel with
  | O => (OutOfFuel, c)
  | S f =>
      match p with
      | [] => (Ok [], c)
      | o :: rest =>
          let k (vs : list str) (c1 : cachet) : res (list str) * cachet :=
            bindC (collect_gen f rest c1) (fun vs' c2 => (Ok (vs ++ vs'), c2)) in
          match o with
          | Emit x | EmitFilt x _ | Translate x => k [x] c
          | EmitField _ => k [s_d] c
          | ForCont arr _ | ForAll arr => k [arr; s_v] c
          | Assign _ e | CallMacro _ e | DateNow _ e | DateOf _ e => k (expr_vars e) c
          | Capture _ body | Block _ body | DefMacro _ body => bindC (collect_gen f body c) k
          | Include name | Extends name | RenderP name =>
              bindC (ld c name) (fun t c1 => bindC (collect_gen f t c1) k)
          | _ => k [] c
          end
      end
  end.

End Run.

(** * Environments, templates, the session *)

Record envst := {
  e_auto : bool;                      (* auto_escape (constructor argument) *)
  e_caching : bool;                   (* loader is a CachingDictLoader (else DictLoader) *)
  e_store : list (str * prog);        (* loader contents, fixed *)
  e_tags : list str;                  (* env.tags: registered tag names, fixed *)
  e_filters : list (str * fbeh);      (* env.filters (environment.py:110) *)
  e_globals : gmap;                   (* env.globals (environment.py:98) *)
  e_cache : cachet;                   (* loader.cache: name -> the shared Template's global_data *)
  e_held : list str                   (* names of cached templates the caller holds a reference to *)
}.

Record tobj := { t_env : nat; t_prog : prog; t_globals : gmap }.

(** [owned]: what the i-th creating call (from_string, get_template on a
    non-caching loader) returned; None if it raised. *)
Record sess := { envs : list envst; owned : list (option tobj); clock : N }.

Definition tag_of (o : op) : option str :=
  match o with
  | Incr _ => Some [105;110;99;114;101;109;101;110;116]%N          (* increment *)
  | Decr _ => Some [100;101;99;114;101;109;101;110;116]%N          (* decrement *)
  | Cycle _ _ => Some [99;121;99;108;101]%N                        (* cycle *)
  | ForCont _ _ | ForAll _ => Some [102;111;114]%N                 (* for *)
  | Assign _ _ => Some [97;115;115;105;103;110]%N                  (* assign *)
  | Capture _ _ => Some [99;97;112;116;117;114;101]%N              (* capture *)
  | DefMacro _ _ => Some [109;97;99;114;111]%N                     (* macro *)
  | CallMacro _ _ => Some [99;97;108;108]%N                        (* call *)
  | Translate _ => Some [116;114;97;110;115;108;97;116;101]%N      (* translate *)
  | Include _ => Some s_include
  | RenderP _ => Some [114;101;110;100;101;114]%N                  (* render *)
  | Extends _ => Some [101;120;116;101;110;100;115]%N              (* extends *)
  | Block _ _ => Some s_block
  | _ => None
  end.

Definition all_tags : list str :=
  [[105;110;99;114;101;109;101;110;116]; [100;101;99;114;101;109;101;110;116];
   [99;121;99;108;101]; [102;111;114]; [97;115;115;105;103;110];
   [99;97;112;116;117;114;101]; [109;97;99;114;111]; [99;97;108;108];
   [116;114;97;110;115;108;97;116;101]; s_include;
   [101;120;116;101;110;100;115]; s_block; [114;101;110;100;101;114]]%N.

(** Parser, in document order: a tag that is not registered is a
    LiquidSyntaxError (cycle needs an item); with validate_filter_arguments (the
    default) a filter that is not registered WHEN THE TEMPLATE IS PARSED is an
    UnknownFilterError (builtin/expressions.py Filter.validate_filter_arguments). *)
Fixpoint first_err {A} (f : A -> option lclass) (l : list A) : option lclass :=
  match l with
  | [] => None
  | x :: l' => match f x with Some c => Some c | None => first_err f l' end
  end.

Fixpoint parse_op (fuel : nat) (tags fnames : list str) (o : op) : option lclass :=
  match fuel with
  | O => Some LiquidSyntaxError
  | S f =>
      if match tag_of o with Some t => mem_str t tags | None => true end then
        match o with
        | Cycle _ [] => Some LiquidSyntaxError
        | Broken _ => Some LiquidSyntaxError
        | EmitFilt _ fn => if mem_str fn fnames then None else Some UnknownFilterError
        | DateNow _ _ | DateOf _ _ => if mem_str s_date fnames then None else Some UnknownFilterError
        | Capture _ body | DefMacro _ body | Block _ body => first_err (parse_op f tags fnames) body
        | _ => None
        end
      else Some LiquidSyntaxError
  end.

(** What env.from_string(source) raises, if anything. *)
Definition parse (tags : list str) (filters : list (str * fbeh)) (p : prog) : res prog :=
  match first_err (parse_op static_depth tags (keys filters)) p with
  | None => Ok p
  | Some c => LErr c None
  end.

(** Environment.make_globals (environment.py:224-232): {**env.globals, **g}. *)
Definition mk_globals (E : envst) (g : gmap) : gmap :=
  fold_left (fun acc kv => dict_set (fst kv) (snd kv) acc) g (e_globals E).

(** BaseLoader.load on a DictLoader: get_source + env.from_string. *)
Definition load_src (E : envst) (name : str) : res prog :=
  match assoc name (e_store E) with
  | None => LErr TemplateNotFoundError None
  | Some p => parse (e_tags E) (e_filters E) p
  end.

(** env.get_template(name, context=ctx) from a tag or from static analysis:
    CachingLoaderMixin._check_cache (loaders/mixins.py) with a render context —
    a hit returns the cached object untouched, a miss loads, binds
    make_globals(None) and caches. *)
Definition load_partial (E : envst) (c : cachet) (name : str) : res prog * cachet :=
  if e_caching E then
    match assoc name c with
    | Some _ =>
        match assoc name (e_store E) with
        | Some p => (Ok p, c)
        | None => (PyExc KeyError, c)       (* unreachable: contents are fixed *)
        end
    | None =>
        match load_src E name with
        | Ok p => (Ok p, dict_set name (mk_globals E []) c)
        | other => (other, c)
        end
    end
  else (load_src E name, c).

Definition renv_of (E : envst) (clk : N) (fa fl : option nat) : renv :=
  {| x_auto := e_auto E; x_filters := e_filters E; x_clock := clk; x_facc := fa; x_flds := fl |}.

(** Template.render (template.py:78-102): a NEW RenderContext whose globals are
    make_globals(render args) = ChainMap(args, overlay_data, global_data). *)
Definition start_ctx (tglobals data : gmap) : rctx :=
  let g := [FMap data; FMap tglobals] in fresh_ctx g g [] [] 0.

Inductive obs :=
| OText (s : str)
| OHandleOwn (i : nat)
| OHandleCached (e : nat) (name : str)
| ONames (l : list str)
| OUnit
| OBad.                 (* the history names an environment / template that does not exist *)

Definition obs_of {A} (f : A -> obs) (x : res A) : res obs :=
  match x with
  | Ok a => Ok (f a)
  | LErr c p => LErr c p
  | PyExc k => PyExc k
  | OutOfFuel => OutOfFuel
  end.

Definition start_lst (E : envst) : lst := {| l_cache := e_cache E; l_acc := 0; l_lds := 0 |}.

(** The observation and the loader cache left behind (by a successful render
    and by a failed one alike). *)
Definition render_prog (fuel : nat) (E : envst) (clk : N) (fa fl : option nat)
  (p : prog) (tglobals data : gmap) : res obs * cachet :=
  let x := run_gen (load_partial E) (renv_of E clk fa fl) fuel p p (start_lst E)
             (start_ctx tglobals data) in
  (obs_of (fun rb => OText (r_out (fst rb))) (fst x), l_cache (snd x)).

Definition analyze_prog (fuel : nat) (E : envst) (p : prog) : res obs * cachet :=
  let x := collect_gen (load_partial E) fuel p (e_cache E) in
  (obs_of ONames (fst x), snd x).

(** * Histories *)

Inductive href := Own (i : nat) | Cached (e : nat) (name : str).

Inductive hop :=
| CreateEnv (auto caching : bool) (tags : list str) (store : list (str * prog)) (globals : gmap)
| SetGlobal (e : nat) (x : str) (v : val)              (* env.globals[x] = v *)
| SetFilter (e : nat) (name : str) (b : option fbeh)   (* env.filters[name] = f / del *)
| AdvanceClock
| FromString (e : nat) (p : prog) (g : gmap)           (* env.from_string(src, globals=g); liquid2.parse on env 0 *)
| GetTemplate (e : nat) (name : str) (g : gmap)        (* env.get_template(_async)(name, globals=g) *)
| Render (h : href) (d : gmap) (fa fl : option nat)    (* t.render(_async) with data d, faults at access fa / load fl *)
| QuickRender (p : prog) (d : gmap) (fa fl : option nat)  (* liquid2.render(src, data d) on DEFAULT_ENVIRONMENT *)
| Analyze (h : href).                                  (* t.analyze(_async)() *)

Definition default_filters : list (str * fbeh) :=
  [([117;112;99;97;115;101]%N, FUp); (s_date, FDate)].

Definition new_env (auto caching : bool) (tags : list str) (store : list (str * prog))
  (globals : gmap) : envst :=
  {| e_auto := auto; e_caching := caching; e_store := store; e_tags := tags;
     e_filters := default_filters; e_globals := globals; e_cache := []; e_held := [] |}.

(** liquid2/__init__.py:60: DEFAULT_ENVIRONMENT = Environment() is environment 0. *)
Definition init : sess :=
  {| envs := [new_env false false all_tags [] []]; owned := []; clock := 0%N |}.

Fixpoint set_nth {A} (n : nat) (x : A) (l : list A) : list A :=
  match l, n with
  | [], _ => []
  | _ :: l', O => x :: l'
  | y :: l', S n' => y :: set_nth n' x l'
  end.

Definition with_env (s : sess) (e : nat) (E : envst) : sess :=
  {| envs := set_nth e E (envs s); owned := owned s; clock := clock s |}.

Definition upd_cache (E : envst) (c : cachet) : envst :=
  {| e_auto := e_auto E; e_caching := e_caching E; e_store := e_store E; e_tags := e_tags E;
     e_filters := e_filters E; e_globals := e_globals E; e_cache := c; e_held := e_held E |}.

Definition upd_cache_held (E : envst) (c : cachet) (h : list str) : envst :=
  {| e_auto := e_auto E; e_caching := e_caching E; e_store := e_store E; e_tags := e_tags E;
     e_filters := e_filters E; e_globals := e_globals E; e_cache := c; e_held := h |}.

Definition upd_filters (E : envst) (f : list (str * fbeh)) : envst :=
  {| e_auto := e_auto E; e_caching := e_caching E; e_store := e_store E; e_tags := e_tags E;
     e_filters := f; e_globals := e_globals E; e_cache := e_cache E; e_held := e_held E |}.

Definition upd_globals (E : envst) (g : gmap) : envst :=
  {| e_auto := e_auto E; e_caching := e_caching E; e_store := e_store E; e_tags := e_tags E;
     e_filters := e_filters E; e_globals := g; e_cache := e_cache E; e_held := e_held E |}.

(** What a handle denotes: the environment, the parsed program and the
    global_data currently bound to the Template object. *)
Definition resolve (s : sess) (h : href) : option (nat * envst * prog * gmap) :=
  match h with
  | Own i =>
      match nth_error (owned s) i with
      | Some (Some t) =>
          match nth_error (envs s) (t_env t) with
          | Some E => Some (t_env t, E, t_prog t, t_globals t)
          | None => None
          end
      | _ => None
      end
  | Cached e name =>
      match nth_error (envs s) e with
      | Some E =>
          if mem_str name (e_held E) then
            match assoc name (e_cache E), assoc name (e_store E) with
            | Some g, Some p => Some (e, E, p, g)
            | _, _ => None
            end
          else None
      | None => None
      end
  end.

Definition push_owned (s : sess) (t : option tobj) : sess :=
  {| envs := envs s; owned := owned s ++ [t]; clock := clock s |}.

(** A creating call: the new Template is bound to make_globals(g); the call
    takes the next slot of [owned] whether or not it raises. *)
Definition create (s : sess) (e : nat) (E : envst) (x : res prog) (g : gmap) : res obs * sess :=
  match x with
  | Ok p =>
      (Ok (OHandleOwn (length (owned s))),
       push_owned s (Some {| t_env := e; t_prog := p; t_globals := mk_globals E g |}))
  | LErr c p' => (LErr c p', push_owned s None)
  | PyExc k => (PyExc k, push_owned s None)
  | OutOfFuel => (OutOfFuel, push_owned s None)
  end.

Section Step.
Variable fuel : nat.

Definition step (s : sess) (o : hop) : res obs * sess :=
  match o with
  | CreateEnv auto caching tags store globals =>
      (Ok OUnit, {| envs := envs s ++ [new_env auto caching tags store globals];
                    owned := owned s; clock := clock s |})
  | SetGlobal e x v =>
      match nth_error (envs s) e with
      | Some E => (Ok OUnit, with_env s e (upd_globals E (dict_set x v (e_globals E))))
      | None => (Ok OBad, s)
      end
  | SetFilter e name b =>
      match nth_error (envs s) e with
      | Some E =>
          (Ok OUnit, with_env s e (upd_filters E
             (match b with
              | Some fb => dict_set name fb (e_filters E)
              | None => remove_key name (e_filters E)
              end)))
      | None => (Ok OBad, s)
      end
  | AdvanceClock =>
      (Ok OUnit, {| envs := envs s; owned := owned s; clock := N.succ (clock s) |})
  | FromString e p g =>                      (* environment.py:137-164 *)
      match nth_error (envs s) e with
      | Some E =>
          create s e E (parse (e_tags E) (e_filters E) p) g
      | None => (Ok OBad, s)
      end
  | GetTemplate e name g =>                  (* environment.py:166-222, mixins.py _check_cache *)
      match nth_error (envs s) e with
      | Some E =>
          if e_caching E then
            match assoc name (e_cache E) with
            | Some _ =>
                (* hit, no render context: the shared object is re-bound *)
                (Ok (OHandleCached e name),
                 with_env s e (upd_cache_held E (dict_set name (mk_globals E g) (e_cache E))
                                 (name :: e_held E)))
            | None =>
                match load_src E name with
                | Ok _ =>
                    (Ok (OHandleCached e name),
                     with_env s e (upd_cache_held E (dict_set name (mk_globals E g) (e_cache E))
                                     (name :: e_held E)))
                | LErr c p => (LErr c p, s)
                | PyExc k => (PyExc k, s)
                | OutOfFuel => (OutOfFuel, s)
                end
            end
          else
            create s e E (load_src E name) g
      | None => (Ok OBad, s)
      end
  | Render h d fa fl =>
      match resolve s h with
      | Some (e, E, p, tg) =>
          let x := render_prog fuel E (clock s) fa fl p tg d in
          (fst x, with_env s e (upd_cache E (snd x)))
      | None => (Ok OBad, s)
      end
  | QuickRender p d fa fl =>                 (* __init__.py render(): from_string(source).render(...) *)
      match nth_error (envs s) 0 with
      | Some E =>
          match parse (e_tags E) (e_filters E) p with
          | Ok _ =>
              let x := render_prog fuel E (clock s) fa fl p (mk_globals E []) d in
              (fst x, with_env s 0 (upd_cache E (snd x)))
          | LErr c p' => (LErr c p', s)
          | PyExc k => (PyExc k, s)
          | OutOfFuel => (OutOfFuel, s)
          end
      | None => (Ok OBad, s)
      end
  | Analyze h =>
      match resolve s h with
      | Some (e, E, p, _) =>
          let x := analyze_prog fuel E p in
          (fst x, with_env s e (upd_cache E (snd x)))
      | None => (Ok OBad, s)
      end
  end.

Fixpoint final (s : sess) (ops : list hop) : sess :=
  match ops with
  | [] => s
  | o :: ops' => final (snd (step s o)) ops'
  end.

(** Observation per step plus the loader caches after it (what the tie compares). *)
Definition snap (s : sess) : list cachet := map e_cache (envs s).

Fixpoint run (s : sess) (ops : list hop) : list (res obs * list cachet) :=
  match ops with
  | [] => []
  | o :: ops' =>
      (fst (step s o), snap (snd (step s o))) :: run (snd (step s o)) ops'
  end.

End Step.

(** Calls that only render or analyse: the ones a "fresh" replay leaves out. *)
Definition is_render_like (o : hop) : bool :=
  match o with Render _ _ _ _ | QuickRender _ _ _ _ | Analyze _ => true | _ => false end.

Definition erase (ops : list hop) : list hop := filter (fun o => negb (is_render_like o)) ops.

(** The environment a call concerns. *)
Definition env_of_op (s : sess) (o : hop) : option nat :=
  match o with
  | SetGlobal e _ _ | SetFilter e _ _ | FromString e _ _ | GetTemplate e _ _ => Some e
  | QuickRender _ _ _ _ => Some 0
  | Render h _ _ _ | Analyze h =>
      match resolve s h with Some (e, _, _, _) => Some e | None => None end
  | CreateEnv _ _ _ _ _ | AdvanceClock => None
  end.

(** Configuration of environment e1. *)
Definition config_on (e1 : nat) (o : hop) : bool :=
  match o with
  | SetGlobal e _ _ | SetFilter e _ _ => Nat.eqb e e1
  | _ => false
  end.

(** Guard of the known finding "stale parse after filter removal": the history
    never REMOVES a filter from an environment whose loader caches (a cached
    template was validated against the filter register of the moment it was
    parsed, mixins.py never re-validates). *)
Definition safe_opb (s : sess) (o : hop) : bool :=
  match o with
  | SetFilter e _ None =>
      match nth_error (envs s) e with Some E => negb (e_caching E) | None => true end
  | _ => true
  end.

Fixpoint guardedb (fuel : nat) (s : sess) (ops : list hop) : bool :=
  match ops with
  | [] => true
  | o :: ops' => safe_opb s o && guardedb fuel (snd (step fuel s o)) ops'
  end.

(** * Boolean equalities for the correspondence runner *)

Definition val_eqb (a b : val) : bool :=
  match a, b with
  | VStr s x, VStr s' x' => str_eqb s s' && Bool.eqb x x'
  | VInt z, VInt z' => Z.eqb z z'
  | VList l, VList l' => list_eqb str_eqb l l'
  | VTime d k, VTime d' k' => Bool.eqb d d' && N.eqb k k'
  | VDrop m, VDrop m' => list_eqb (prod_eqb str_eqb str_eqb) m m'
  | VUndef, VUndef => true
  | _, _ => false
  end.

Definition gmap_eqb : gmap -> gmap -> bool := list_eqb (prod_eqb str_eqb val_eqb).

(** Sets of names (analysis results are compared as sets). *)
Definition names_eqb (a b : list str) : bool :=
  forallb (fun x => mem_str x b) a && forallb (fun x => mem_str x a) b.

Definition obs_eqb (a b : obs) : bool :=
  match a, b with
  | OText s, OText s' => str_eqb s s'
  | OHandleOwn i, OHandleOwn j => Nat.eqb i j
  | OHandleCached e n, OHandleCached e' n' => Nat.eqb e e' && str_eqb n n'
  | ONames l, ONames l' => names_eqb l l'
  | OUnit, OUnit | OBad, OBad => true
  | _, _ => false
  end.

(** Caches are dicts in LRU order; compared as finite maps. *)
Definition cache_le (a b : cachet) : bool :=
  forallb (fun kv => match assoc (fst kv) b with
                     | Some g => gmap_eqb (snd kv) g
                     | None => false
                     end) a.
Definition cache_eqb (a b : cachet) : bool :=
  cache_le a b && cache_le b a && Nat.eqb (length a) (length b).

Definition run_eqb (a b : list (res obs * list cachet)) : bool :=
  list_eqb (prod_eqb (res_eqb_nopos obs_eqb) (list_eqb cache_eqb)) a b.
