(** Kernels/Undefined.v — model of how an undefined value flows through a render
    (property C16).

    Transcribed from (liquid2, working tree after the C16 [fix:] patches):
      undefined.py            Undefined / StrictUndefined / FalsyStrictUndefined
      context.py:114-157      RenderContext.get         (failed lookup -> env.undefined)
      context.py:202-241      RenderContext.get_item    (size / first / last fallbacks)
      filter.py               sequence_arg, math_filter, num_arg, string_filter, _flatten
      stringify.py            to_liquid_string
      builtin/expressions.py  Path, FilteredExpression, TernaryFilteredExpression,
                              Filter.evaluate, BooleanExpression and the infix
                              operators, LoopExpression, is_truthy/_eq/_lt/_contains
      builtin/filters/*.py    default size first last join upcase downcase append
                              prepend escape plus minus times where map sort concat
                              compact uniq sum slice split reverse
      builtin/tags/*.py       output echo assign capture if unless case for
      ast.py:138-158          BlockNode (blank blocks render into a NullIO)

    One [Environment] has one undefined class, so every undefined created in a
    render has the same class: the policy is a parameter of the run and
    [VUndef name] carries only the name.  The ONLY way the policy influences a
    run is through [poke] (which dunder of the undefined raises), through
    [force_default] (the class attribute read by the [default] filter) and
    through [miss] (what a failed lookup produces); [PProbe] is a
    specification device: a run in which a failed lookup aborts with
    LiquidNameError instead of producing an undefined (realised on the real
    engine by [Environment(undefined=<factory that raises>)]).

    [outside] (= PyExc OtherPyError) marks behaviour that this model does not
    describe (Python str()/repr of lists and dicts — where the repr of an
    undefined prints its class name, known finding repr-of-undefined-in-container —,
    tuples from dict iteration, floats, keyed sort/uniq, non-ASCII case mapping,
    object identity of two undefineds under StrictUndefined ...): it is an
    error outcome, never a normal-looking value.  auto_escape is off.

    Model file: definitions only.  Proofs: Proofs/Undefined_proofs.v. *)
From LQ Require Export Base.Str.
Local Open Scope Z_scope.

Definition outside {A} : res A := PyExc OtherPyError.

(** * Policies and dunders (undefined.py) *)

Inductive upolicy := PDefault | PStrict | PFalsy | PProbe.

(** The operations applied to an undefined object.  [DAttr] is any attribute
    read that is not in [allowed_properties] ([.items], [.__html__] ...),
    [DPoke] is the attribute read [.poke], [DLiquid] is
    [hasattr(x, "__liquid__")] followed by the call. *)
Inductive dunder :=
| DStr | DBool | DEq | DLen | DIter | DContains | DGetitem | DInt | DHash
| DReversed | DLiquid | DPoke | DAttr.

(** undefined.py:25-80 (Undefined: nothing raises), 99-170 (StrictUndefined:
    every dunder and every attribute outside allowed_properties raises
    UndefinedError — [hasattr] propagates it because it is not an
    AttributeError), 173-197 (FalsyStrictUndefined allows __bool__, __eq__,
    __liquid__; defining __eq__ without __hash__ makes the class unhashable:
    hash() raises TypeError). *)
Definition poke (pol : upolicy) (d : dunder) : res unit :=
  match pol with
  | PDefault | PProbe => Ok tt
  | PStrict => LErr UndefinedError None
  | PFalsy =>
      match d with
      | DBool | DEq | DLiquid => Ok tt
      | DHash => PyExc TypeError
      | _ => LErr UndefinedError None
      end
  end.

(** [hasattr(obj, "force_liquid_default") and obj.force_liquid_default]
    (class attribute of StrictUndefined, listed in allowed_properties). *)
Definition force_default (pol : upolicy) : bool :=
  match pol with PStrict | PFalsy => true | _ => false end.

(** * Values *)

Inductive val :=
| VNil | VBool (b : bool) | VInt (z : Z) | VStr (s : str)
| VList (l : list val) | VDict (kvs : list (str * val))
| VUndef (name : str).

Fixpoint mapM {A B} (f : A -> res B) (l : list A) : res (list B) :=
  match l with
  | [] => Ok []
  | x :: t => do y <- f x;; do ys <- mapM f t;; Ok (y :: ys)
  end.

(** Keep the elements for which [f] answers true; [f] is applied to every
    element in order and the first error wins (a list comprehension). *)
Fixpoint filterM {A} (f : A -> res bool) (l : list A) : res (list A) :=
  match l with
  | [] => Ok []
  | x :: t => do b <- f x;; do ys <- filterM f t;; Ok (if b then x :: ys else ys)
  end.

(** * Strings *)

Definition s_true : str := [116;114;117;101]%N.
Definition s_false : str := [102;97;108;115;101]%N.
Definition s_True : str := [84;114;117;101]%N.
Definition s_False : str := [70;97;108;115;101]%N.
Definition s_None : str := [78;111;110;101]%N.
Definition s_size : str := [115;105;122;101]%N.
Definition s_first : str := [102;105;114;115;116]%N.
Definition s_last : str := [108;97;115;116]%N.
Definition s_now : str := [110;111;119]%N.
Definition s_today : str := [116;111;100;97;121]%N.
Definition s_forloop : str := [102;111;114;108;111;111;112]%N.
Definition s_parentloop : str := [112;97;114;101;110;116;108;111;111;112]%N.
Definition s_name : str := [110;97;109;101]%N.
Definition s_length : str := [108;101;110;103;116;104]%N.
Definition s_index : str := [105;110;100;101;120]%N.
Definition s_index0 : str := [105;110;100;101;120;48]%N.
Definition s_rindex : str := [114;105;110;100;101;120]%N.
Definition s_rindex0 : str := [114;105;110;100;101;120;48]%N.
Definition s_space : str := [32]%N.
Definition s_allow_false : str := [97;108;108;111;119;95;102;97;108;115;101]%N.

(** Decimal digits of a natural number, most significant first. *)
Fixpoint dec_aux (fuel : nat) (n : N) (acc : str) : str :=
  match fuel with
  | O => acc
  | S f =>
      let d := (48 + n mod 10)%N in
      if (n <? 10)%N then d :: acc else dec_aux f (n / 10)%N (d :: acc)
  end.
Definition dec_of_N (n : N) : str := dec_aux (S (N.size_nat n)) n [].
(** [str(z)] for a Python int. *)
Definition str_of_Z (z : Z) : str :=
  if z <? 0 then 45%N :: dec_of_N (Z.to_N (- z)) else dec_of_N (Z.to_N z).

Fixpoint is_prefix (p s : str) : bool :=
  match p, s with
  | [], _ => true
  | a :: p', b :: s' => N.eqb a b && is_prefix p' s'
  | _ :: _, [] => false
  end.
(** [needle in hay] for Python strings. *)
Fixpoint str_contains (needle hay : str) : bool :=
  is_prefix needle hay ||
  match hay with [] => false | _ :: h' => str_contains needle h' end.

(** [s.split(sep)] for a non-empty [sep]. *)
Fixpoint split_go (sep s cur : str) (skip : nat) : list str :=
  match s with
  | [] => [rev cur]
  | c :: s' =>
      match skip with
      | S k => split_go sep s' cur k
      | O => if is_prefix sep s then rev cur :: split_go sep s' [] (length sep - 1)
             else split_go sep s' (c :: cur) 0
      end
  end.
Definition str_split (s sep : str) : list str := split_go sep s [] 0.

(** Python's str "<" : lexicographic by code point. *)
Fixpoint str_ltb (a b : str) : bool :=
  match a, b with
  | [], [] => false
  | [], _ :: _ => true
  | _ :: _, [] => false
  | x :: a', y :: b' => if (x <? y)%N then true else if (y <? x)%N then false else str_ltb a' b'
  end.

(** [str.isspace()] of one code point (the complete CPython set). *)
Definition is_space (c : N) : bool :=
  ((9 <=? c) && (c <=? 13) || (28 <=? c) && (c <=? 32) || (c =? 133) || (c =? 160)
   || (c =? 5760) || (8192 <=? c) && (c <=? 8202) || (c =? 8232) || (c =? 8233)
   || (c =? 8239) || (c =? 8287) || (c =? 12288))%N.
Definition is_ascii (s : str) : bool := forallb (fun c => (c <? 128)%N) s.
Definition is_digit (c : N) : bool := ((48 <=? c) && (c <=? 57))%N.

(** [html.escape(s)] (quote=True). *)
Definition html_escape1 (c : N) : str :=
  if (c =? 38)%N then [38;97;109;112;59]%N
  else if (c =? 60)%N then [38;108;116;59]%N
  else if (c =? 62)%N then [38;103;116;59]%N
  else if (c =? 34)%N then [38;113;117;111;116;59]%N
  else if (c =? 39)%N then [38;35;120;50;55;59]%N
  else [c].
Definition html_escape (s : str) : str := flat_map html_escape1 s.

(** [str.upper()] / [str.lower()]: exact on ASCII, outside the model beyond. *)
Definition ascii_upper (s : str) : res str :=
  if is_ascii s then Ok (map (fun c => if ((97 <=? c) && (c <=? 122))%N then (c - 32)%N else c) s)
  else outside.
Definition ascii_lower (s : str) : res str :=
  if is_ascii s then Ok (map (fun c => if ((65 <=? c) && (c <=? 90))%N then (c + 32)%N else c) s)
  else outside.

(** ** [int(s)] on strings (limits.py:to_int, filter.py:num_arg) *)

Fixpoint lstrip_ws (s : str) : str :=
  match s with c :: s' => if is_space c then lstrip_ws s' else s | [] => [] end.
Definition strip_ws (s : str) : str := rev (lstrip_ws (rev (lstrip_ws s))).

(** digits with single underscores between digits *)
Fixpoint int_body (s : str) (acc : N) (prev_digit : bool) : option N :=
  match s with
  | [] => if prev_digit then Some acc else None
  | c :: s' =>
      if is_digit c then int_body s' (acc * 10 + (c - 48))%N true
      else if (c =? 95)%N then (if prev_digit then
                                  match s' with [] => None | _ => int_body s' acc false end
                                else None)
      else None
  end.

Inductive numstr := NSInt (z : Z) | NSNone | NSOutside.

Definition s_inf : str := [105;110;102]%N.
Definition s_infinity : str := [105;110;102;105;110;105;116;121]%N.
Definition s_nan : str := [110;97;110]%N.

(** What [int(s)] / [float(s)] make of a string: an int literal, not a
    number at all, or something this model does not decide (may be a float,
    or contains non-ASCII characters). *)
Definition classify_num (s : str) : numstr :=
  if negb (is_ascii s) then NSOutside else
  let t := strip_ws s in
  let '(neg, body) :=
    match t with
    | 45%N :: b => (true, b)
    | 43%N :: b => (false, b)
    | _ => (false, t)
    end in
  match int_body body 0%N false with
  | Some n => NSInt (if neg then - Z.of_N n else Z.of_N n)
  | None =>
      if existsb is_digit s then NSOutside else
      let low := map (fun c => if ((65 <=? c) && (c <=? 90))%N then (c + 32)%N else c) body in
      if str_eqb low s_inf || str_eqb low s_infinity || str_eqb low s_nan then NSOutside
      else NSNone
  end.

Definition MAX_STR_INT : nat := 4300.

(** * Dunder-level primitives on values *)

(** stringify.py:to_liquid_string(val, auto_escape=False). *)
Fixpoint to_liquid_string (pol : upolicy) (v : val) : res str :=
  match v with
  | VStr s => Ok s
  | VBool b => Ok (if b then s_true else s_false)
  | VNil => Ok []
  | VList l =>
      (fix go (l : list val) : res str :=
         match l with
         | [] => Ok []
         | x :: t => do a <- to_liquid_string pol x;; do b <- go t;; Ok (a ++ b)
         end) l
  | VInt z => Ok (str_of_Z z)
  | VDict _ => outside                       (* str(dict): Python repr *)
  | VUndef _ => do _ <- poke pol DStr;; Ok []
  end.

(** Python [str(v)]. *)
Definition py_str (pol : upolicy) (v : val) : res str :=
  match v with
  | VStr s => Ok s
  | VBool b => Ok (if b then s_True else s_False)
  | VNil => Ok s_None
  | VInt z => Ok (str_of_Z z)
  | VList _ | VDict _ => outside
  | VUndef _ => do _ <- poke pol DStr;; Ok []
  end.

(** Python [bool(v)] ([if not sep], [if key:]). *)
Definition py_truthy (pol : upolicy) (v : val) : res bool :=
  match v with
  | VNil => Ok false
  | VBool b => Ok b
  | VInt z => Ok (negb (z =? 0))
  | VStr s => Ok (match s with [] => false | _ => true end)
  | VList l => Ok (match l with [] => false | _ => true end)
  | VDict d => Ok (match d with [] => false | _ => true end)
  | VUndef _ => do _ <- poke pol DBool;; Ok false
  end.

(** [if hasattr(x, "__liquid__"): x = x.__liquid__()]. *)
Definition unliquid (pol : upolicy) (v : val) : res val :=
  match v with
  | VUndef _ => do _ <- poke pol DLiquid;; Ok VNil
  | _ => Ok v
  end.

(** expressions.py:is_truthy. *)
Definition is_truthy (pol : upolicy) (v : val) : res bool :=
  do v' <- unliquid pol v;;
  Ok (match v' with VNil | VBool false => false | _ => true end).

(** Python [a == b].  Undefined.__eq__(other) = isinstance(other, Undefined)
    or other is None (also FalsyStrictUndefined after the fix);
    StrictUndefined.__eq__ raises — except that list/tuple membership and
    list equality short-cut on object identity, which this model does not
    track: two undefineds meeting under StrictUndefined are [outside]. *)
Fixpoint py_eq (pol : upolicy) (a b : val) {struct a} : res bool :=
  match a with
  | VUndef _ =>
      match b with
      | VUndef _ => match pol with PStrict => outside | _ => do _ <- poke pol DEq;; Ok true end
      | VNil => do _ <- poke pol DEq;; Ok true
      | _ => do _ <- poke pol DEq;; Ok false
      end
  | VNil =>
      match b with
      | VNil => Ok true
      | VUndef _ => do _ <- poke pol DEq;; Ok true
      | _ => Ok false
      end
  | VBool x =>
      match b with
      | VBool y => Ok (Bool.eqb x y)
      | VInt y => Ok (Z.b2z x =? y)
      | VUndef _ => do _ <- poke pol DEq;; Ok false
      | _ => Ok false
      end
  | VInt x =>
      match b with
      | VInt y => Ok (x =? y)
      | VBool y => Ok (x =? Z.b2z y)
      | VUndef _ => do _ <- poke pol DEq;; Ok false
      | _ => Ok false
      end
  | VStr x =>
      match b with
      | VStr y => Ok (str_eqb x y)
      | VUndef _ => do _ <- poke pol DEq;; Ok false
      | _ => Ok false
      end
  | VList x =>
      match b with
      | VList y =>
          if Nat.eqb (length x) (length y) then
            (fix go (x y : list val) : res bool :=
               match x, y with
               | a' :: x', b' :: y' =>
                   do r <- py_eq pol a' b';; if r then go x' y' else Ok false
               | _, _ => Ok true
               end) x y
          else Ok false
      | VUndef _ => do _ <- poke pol DEq;; Ok false
      | _ => Ok false
      end
  | VDict x =>
      match b with
      | VDict y =>
          if Nat.eqb (length x) (length y) then
            (fix go (x : list (str * val)) : res bool :=
               match x with
               | [] => Ok true
               | (k, av) :: x' =>
                   match assoc k y with
                   | None => Ok false
                   | Some bv => do r <- py_eq pol av bv;; if r then go x' else Ok false
                   end
               end) x
          else Ok false
      | VUndef _ => do _ <- poke pol DEq;; Ok false
      | _ => Ok false
      end
  end.

(** [x in (False, None)] — tuple membership compares [item == x] (not used by
    the current filters; kept for the primitive-level tie of py_eq). *)
Definition in_false_none (pol : upolicy) (x : val) : res bool :=
  do a <- py_eq pol (VBool false) x;;
  if a then Ok true else py_eq pol VNil x.

(** Python sequence index with negative wrap-around; IndexError outside. *)
Definition py_index {A} (l : list A) (i : Z) : res A :=
  let n := Z.of_nat (length l) in
  let j := if i <? 0 then i + n else i in
  if (j <? 0) || (n <=? j) then PyExc IndexError
  else match nth_error l (Z.to_nat j) with Some x => Ok x | None => PyExc IndexError end.

(** Python [l[start:stop]] (step 1). *)
Definition py_slice {A} (l : list A) (start : Z) (stop : option Z) : list A :=
  let n := Z.of_nat (length l) in
  let norm i := if i <? 0 then Z.max (i + n) 0 else Z.min i n in
  let a := norm start in
  let b := match stop with Some e => norm e | None => n end in
  if a <? b then firstn (Z.to_nat (b - a)) (skipn (Z.to_nat a) l) else [].

(** Python [obj[key]]: KeyError / IndexError / TypeError as values.  Dict keys
    of the data are strings; hashing an undefined key is [DHash]; a list index
    must be an int (bool is an int); an undefined has no __index__. *)
Definition py_getitem (pol : upolicy) (obj key : val) : res val :=
  match obj with
  | VDict kvs =>
      match key with
      | VStr k => match assoc k kvs with Some v => Ok v | None => PyExc KeyError end
      | VNil | VBool _ | VInt _ => PyExc KeyError
      | VList _ | VDict _ => PyExc TypeError
      | VUndef _ => do _ <- poke pol DHash;; PyExc KeyError
      end
  | VList l =>
      match key with
      | VInt z => py_index l z
      | VBool b => py_index l (Z.b2z b)
      | _ => PyExc TypeError
      end
  | VStr s =>
      match key with
      | VInt z => do c <- py_index s z;; Ok (VStr [c])
      | VBool b => do c <- py_index s (Z.b2z b);; Ok (VStr [c])
      | _ => PyExc TypeError
      end
  | VUndef n => do _ <- poke pol DGetitem;; Ok (VUndef n)
  | VNil | VBool _ | VInt _ => PyExc TypeError
  end.

Definition has_getitem (v : val) : bool :=
  match v with VDict _ | VList _ | VStr _ | VUndef _ => true | _ => false end.

(** The filters' helper [_getitem(obj, key, default)] (array.py:50-63 and its
    copies): KeyError/IndexError -> default; TypeError -> default if the
    object is subscriptable, else re-raised. *)
Definition f_getitem (pol : upolicy) (obj key dflt : val) : res val :=
  match py_getitem pol obj key with
  | Ok v => Ok v
  | PyExc KeyError | PyExc IndexError => Ok dflt
  | PyExc TypeError => if has_getitem obj then Ok dflt else PyExc TypeError
  | e => e
  end.

(** Filter.evaluate (expressions.py): a TypeError, ValueError or
    ArithmeticError (OverflowError, ZeroDivisionError, decimal.InvalidOperation)
    escaping the filter function becomes LiquidTypeError; KeyError and
    IndexError still escape. *)
Definition wrap_type_error {A} (r : res A) : res A :=
  match r with
  | PyExc TypeError | PyExc ValueError | PyExc OverflowError
  | PyExc ZeroDivisionError | PyExc DecimalInvalidOperation => LErr LiquidTypeError None
  | _ => r
  end.

(** filter.py:_flatten (level 5, lists only in this value universe). *)
Fixpoint flatten (level : nat) (l : list val) {struct level} : list val :=
  match level with
  | O => l
  | S lv => flat_map (fun x => match x with VList xs => flatten lv xs | _ => [x] end) l
  end.

(** filter.py:sequence_arg. *)
Definition sequence_arg (pol : upolicy) (v : val) : res (list val) :=
  match v with
  | VUndef _ => do _ <- poke pol DPoke;; Ok []
  | VStr s => Ok (map (fun c => VStr [c]) s)
  | VList l => Ok (flatten 5 l)
  | _ => Ok [v]
  end.

(** [int(s)] through limits.to_int: value, ValueError, or LiquidValueError for
    an over-long string. *)
Definition str_to_int (s : str) : res Z :=
  if Nat.ltb MAX_STR_INT (length s) then LErr LiquidValueError None else
  match classify_num s with
  | NSInt z => Ok z
  | NSNone => PyExc ValueError
  | NSOutside => outside
  end.

(** filter.py:num_arg(val, default=0) restricted to ints: bool is an int; a
    string goes through int() then float(); everything else (None, lists,
    dicts, an undefined — NOT poked) is the default. *)
Definition num_arg0 (v : val) : res Z :=
  match v with
  | VInt z => Ok z
  | VBool b => Ok (Z.b2z b)
  | VStr s =>
      if Nat.ltb MAX_STR_INT (length s) then LErr LiquidValueError None else
      match classify_num s with
      | NSInt z => Ok z
      | NSNone => Ok 0
      | NSOutside => outside
      end
  | _ => Ok 0
  end.

(** filter.py:math_filter wrapper: an undefined left value is poked. *)
Definition math_left (pol : upolicy) (v : val) : res Z :=
  do _ <- match v with VUndef _ => poke pol DPoke | _ => Ok tt end;;
  num_arg0 v.

(** filter.py:decimal_arg(val, 0) restricted to ints (sum filter). *)
Definition decimal_arg0 (v : val) : res Z :=
  match v with
  | VInt z => Ok z
  | VBool b => Ok (Z.b2z b)
  | VStr s =>
      if Nat.ltb MAX_STR_INT (length s) then LErr LiquidValueError None else
      match classify_num s with
      | NSInt z => Ok z
      | NSNone => Ok 0          (* Decimal(str) raises InvalidOperation: the default *)
      | NSOutside => outside    (* a Decimal / float: not modelled *)
      end
  | _ => Ok 0
  end.

(** [int(v)] as used by LoopExpression._to_int and string.py:_slice_arg:
    ValueError and TypeError both become LiquidTypeError there. *)
Definition to_int_arg (pol : upolicy) (v : val) : res Z :=
  match v with
  | VInt z => Ok z
  | VBool b => Ok (Z.b2z b)
  | VStr s => match str_to_int s with PyExc ValueError => LErr LiquidTypeError None | r => r end
  | VUndef _ => do _ <- poke pol DInt;; Ok 0
  | VNil | VList _ | VDict _ => LErr LiquidTypeError None
  end.

(** ** Sorting ([sorted(left)] in SortFilter) *)

Fixpoint insert_by {A} (lt : A -> A -> bool) (x : A) (l : list A) : list A :=
  match l with
  | [] => [x]
  | y :: t => if lt y x then y :: insert_by lt x t else x :: l
  end.
(** stable insertion sort ([sorted] is stable): fold from the right, inserting
    an element before the first one that is not smaller, so equal elements
    ([True] and [1]) keep their order *)
Definition sort_by {A} (lt : A -> A -> bool) (l : list A) : list A :=
  fold_right (insert_by lt) [] l.

Definition as_int (v : val) : option Z :=
  match v with VInt z => Some z | VBool b => Some (Z.b2z b) | _ => None end.
Definition as_str (v : val) : option str := match v with VStr s => Some s | _ => None end.
Definition is_vlist (v : val) : bool := match v with VList _ => true | _ => false end.
Definition opt_lt {A} (lt : A -> A -> bool) (key : val -> option A) (a b : val) : bool :=
  match key a, key b with Some x, Some y => lt x y | _, _ => false end.

(** [sorted(l)]: ints (and bools) among themselves, strings among themselves;
    lists of lists are outside; any other mixture of two or more elements
    makes some comparison raise TypeError. *)
Definition py_sorted (l : list val) : res (list val) :=
  match l with
  | [] | [_] => Ok l
  | _ =>
      if forallb (fun v => match as_int v with Some _ => true | None => false end) l
      then Ok (sort_by (opt_lt Z.ltb as_int) l)
      else if forallb (fun v => match as_str v with Some _ => true | None => false end) l
      then Ok (sort_by (opt_lt str_ltb as_str) l)
      else if existsb is_vlist l then outside
      else PyExc TypeError
  end.

(** * Comparison operators (expressions.py:2023-2075) *)

Definition liq_eq (pol : upolicy) (l r : val) : res bool :=
  do l' <- unliquid pol l;;
  do r' <- unliquid pol r;;
  match l', r' with
  | VBool x, VBool y => Ok (Bool.eqb x y)
  | VBool _, _ | _, VBool _ => Ok false
  | _, _ => py_eq pol l' r'
  end.

Definition liq_lt (pol : upolicy) (l r : val) : res bool :=
  do l' <- unliquid pol l;;
  do r' <- unliquid pol r;;
  match l', r' with
  | VStr x, VStr y => Ok (str_ltb x y)
  | VBool _, _ | _, VBool _ => Ok false
  | VInt x, VInt y => Ok (x <? y)
  | _, _ => LErr LiquidTypeError None
  end.

Fixpoint list_contains (pol : upolicy) (l : list val) (x : val) : res bool :=
  match l with
  | [] => Ok false
  | y :: t => do b <- py_eq pol y x;; if b then Ok true else list_contains pol t x
  end.

Definition liq_contains (pol : upolicy) (l r : val) : res bool :=
  match l with
  | VStr s => do t <- py_str pol r;; Ok (str_contains t s)
  | VList items => list_contains pol items r
  | VDict kvs =>
      match r with
      | VStr k => Ok (match assoc k kvs with Some _ => true | None => false end)
      | VNil | VBool _ | VInt _ => Ok false
      | VList _ | VDict _ => Ok false       (* unhashable: TypeError from [right in left] is caught *)
      | VUndef _ =>
          (* hash(undefined): UndefinedError propagates; the TypeError of the
             unhashable FalsyStrictUndefined is caught like any other *)
          match poke pol DHash with
          | PyExc TypeError => Ok false
          | r => do _ <- r;; Ok false
          end
      end
  | VUndef _ => do _ <- poke pol DContains;; Ok false
  | VNil | VBool _ | VInt _ => LErr LiquidTypeError None
  end.

(** * Filters *)

Inductive fname :=
| FDefault | FSize | FFirst | FLast | FJoin | FUpcase | FDowncase | FAppend
| FPrepend | FEscape | FPlus | FMinus | FTimes | FWhere | FMap | FSort | FConcat
| FCompact | FUniq | FSum | FSlice | FSplit | FReverse.

Definition is_empty_val (v : val) : bool :=
  match v with VStr [] | VList [] | VDict [] => true | _ => false end.

(** misc.py:37-59. *)
Definition f_default (pol : upolicy) (obj dflt : val) (allow_false : val) : res val :=
  match obj with
  | VUndef _ =>
      if force_default pol then Ok dflt
      else do _ <- poke pol DLiquid;; Ok dflt      (* _obj = None; None in (None, False) *)
  | VInt _ => Ok obj
  | VBool false =>
      match allow_false with VBool true => Ok obj | _ => Ok dflt end
  | VNil => Ok dflt
  | _ => if is_empty_val obj then Ok dflt else Ok obj
  end.

(** misc.py:26-34. *)
Definition f_size (pol : upolicy) (obj : val) : res val :=
  match obj with
  | VStr s => Ok (VInt (Z.of_nat (length s)))
  | VList l => Ok (VInt (Z.of_nat (length l)))
  | VDict d => Ok (VInt (Z.of_nat (length d)))
  | VUndef _ => do _ <- poke pol DLen;; Ok (VInt 0)
  | _ => Ok (VInt 0)
  end.

(** array.py:95-117: [first] / [last]. *)
Definition f_first (pol : upolicy) (obj : val) : res val :=
  match obj with
  | VStr _ => Ok VNil
  | VDict [] => Ok VNil
  | VDict _ => outside                       (* a (key, value) tuple *)
  | VList l => match l with x :: _ => Ok x | [] => Ok VNil end
  | VUndef _ =>
      (* an undefined is a Mapping: list(islice(obj.items(), 1)) reads the attribute
         .items and iterates it; the empty list has no first item *)
      do _ <- poke pol DAttr;; do _ <- poke pol DIter;; Ok VNil
  | _ => Ok VNil
  end.
Definition f_last (pol : upolicy) (obj : val) : res val :=
  match obj with
  | VStr _ => Ok VNil
  | VList l => match l with [] => Ok VNil | _ => Ok (last l VNil) end
  | VUndef n => do _ <- poke pol DGetitem;; Ok (VUndef n)
  | _ => Ok VNil                             (* dict[-1]: KeyError; others: TypeError *)
  end.

(** array.py:77-92. *)
Definition f_join (pol : upolicy) (left sep : val) : res val :=
  do items <- sequence_arg pol left;;
  do sep' <- to_liquid_string pol sep;;
  do parts <- mapM (to_liquid_string pol) items;;
  Ok (VStr (match parts with
            | [] => []
            | p :: ps => p ++ flat_map (fun q => sep' ++ q) ps
            end)).

(** where / WhereFilter (filtering_filters.py) with a string key: Liquid
    equality [_eq] against a given value, Liquid truthiness otherwise. *)
Definition f_where (pol : upolicy) (left key value : val) : res val :=
  do items <- sequence_arg pol left;;
  match value with
  | VNil | VUndef _ =>
      do r <- filterM (fun itm => do x <- f_getitem pol itm key VNil;; is_truthy pol x) items;;
      Ok (VList r)
  | _ =>
      do r <- filterM (fun itm => do x <- f_getitem pol itm key VNil;; liq_eq pol x value) items;;
      Ok (VList r)
  end.

(** MapFilter (map_filter.py) with a non-lambda argument: an item without
    the key yields nil. *)
Definition f_map (pol : upolicy) (left key : val) : res val :=
  do items <- sequence_arg pol left;;
  do r <- mapM (fun itm =>
                  do k <- py_str pol key;;
                  match f_getitem pol itm (VStr k) VNil with
                  | PyExc TypeError => LErr LiquidTypeError None     (* "can't map sequence" *)
                  | r => r
                  end) items;;
  Ok (VList r).

(** SortFilter (sorting_filters.py:88-110): only the key-less path. *)
Definition f_sort (pol : upolicy) (left key : val) : res val :=
  do items <- sequence_arg pol left;;
  do k <- py_truthy pol key;;
  if k then outside else
  match py_sorted items with
  | Ok l => Ok (VList l)
  | PyExc TypeError => LErr LiquidTypeError None        (* "can't sort sequence" *)
  | PyExc k' => PyExc k'
  | LErr c p => LErr c p
  | OutOfFuel => OutOfFuel
  end.

(** array.py:120-133. *)
Definition f_concat (pol : upolicy) (left other : val) : res val :=
  do items <- sequence_arg pol left;;
  match other with
  | VList l => Ok (VList (items ++ l))
  | _ => LErr LiquidTypeError None
  end.

Definition is_nil (v : val) : bool := match v with VNil => true | _ => false end.

(** CompactFilter (filtering_filters.py): with a key, [_property(itm, key)]
    (a missing key or an index out of range is nil; TypeError becomes
    LiquidTypeError with a message that formats the key). *)
Definition f_compact (pol : upolicy) (left : val) (key : option val) : res val :=
  do items <- sequence_arg pol left;;
  match key with
  | None | Some VNil | Some (VUndef _) =>          (* key is None or is_undefined(key): no key *)
      Ok (VList (filter (fun v => negb (is_nil v)) items))
  | Some k =>
      do r <- filterM (fun itm =>
                         match py_getitem pol itm k with
                         | PyExc TypeError =>
                             do _ <- match k with VUndef _ => poke pol DStr | _ => Ok tt end;;
                             LErr LiquidTypeError None
                         | PyExc KeyError | PyExc IndexError => Ok false
                         | Ok x => Ok (negb (is_nil x))
                         | LErr c p => LErr c p
                         | PyExc e => PyExc e
                         | OutOfFuel => OutOfFuel
                         end) items;;
      Ok (VList r)
  end.

(** UniqFilter without key (uniq_filter.py): an item is kept unless one of the
    items kept so far is the same object or equal to it by Liquid equality
    ([item is obj or _eq(item, obj)], so 1 and true are different).  Object
    identity of two undefineds is not tracked: under StrictUndefined (where
    [_eq] would raise for two different objects) that pair is [outside]. *)
Definition uniq_eq (pol : upolicy) (item obj : val) : res bool :=
  match item, obj with
  | VUndef _, VUndef _ => match pol with PStrict => outside | _ => liq_eq pol item obj end
  | _, _ => liq_eq pol item obj
  end.
Fixpoint seen_before (pol : upolicy) (kept : list val) (obj : val) : res bool :=
  match kept with
  | [] => Ok false
  | x :: t => do b <- uniq_eq pol x obj;; if b then Ok true else seen_before pol t obj
  end.
Fixpoint uniq_go (pol : upolicy) (kept rest : list val) : res (list val) :=
  match rest with
  | [] => Ok kept
  | x :: t =>
      do b <- seen_before pol kept x;;
      uniq_go pol (if b then kept else kept ++ [x]) t
  end.
Definition f_uniq (pol : upolicy) (left : val) : res val :=
  do items <- sequence_arg pol left;;
  do r <- uniq_go pol [] items;;
  Ok (VList r).

(** SumFilter (sum_filter.py:62-96) without lambda. *)
Definition f_sum (pol : upolicy) (left : val) (key : option val) : res val :=
  do items <- sequence_arg pol left;;
  match key with
  | None | Some VNil | Some (VUndef _) =>
      do zs <- mapM decimal_arg0 items;; Ok (VInt (fold_left Z.add zs 0))
  | Some k =>
      do zs <- mapM (fun e => do x <- wrap_type_error (f_getitem pol e k (VInt 0));;
                               decimal_arg0 x) items;;
      Ok (VInt (fold_left Z.add zs 0))
  end.

Definition MAX_SLICE_ARG : Z := 9223372036854775807.
Definition MIN_SLICE_ARG : Z := -9223372036854775808.
Definition clamp_slice (z : Z) : Z := Z.max (Z.min z MAX_SLICE_ARG) MIN_SLICE_ARG.

(** string.py:slice_. *)
Definition f_slice (pol : upolicy) (v start len : val) : res val :=
  do v' <- match v with
           | VStr _ | VList _ => Ok v
           | _ => do s <- py_str pol v;; Ok (VStr s)
           end;;
  match start with
  | VUndef _ => LErr LiquidTypeError None
  | _ =>
      let len' := match len with VUndef _ => VInt 1 | _ => len end in
      do st <- to_int_arg pol start;;
      do ln <- to_int_arg pol len';;
      let st := clamp_slice st in
      let ln := clamp_slice ln in
      let e := st + ln in
      let stop := if (st <? 0) && (0 <=? e) then None else Some e in
      (* a negative start before the beginning of the sequence is out of range *)
      match v' with
      | VStr s => Ok (VStr (if st <? - Z.of_nat (length s) then [] else py_slice s st stop))
      | VList l => Ok (VList (if st <? - Z.of_nat (length l) then [] else py_slice l st stop))
      | _ => outside
      end
  end.

(** string.py:split. *)
Definition f_split (pol : upolicy) (v sep : val) : res val :=
  do s <- to_liquid_string pol v;;
  do t <- py_truthy pol sep;;
  if negb t then Ok (VList (map (fun c => VStr [c]) s)) else
  do sep' <- to_liquid_string pol sep;;
  match s with
  | [] => Ok (VList [])
  | _ =>
      if str_eqb s sep' then Ok (VList [])
      else match sep' with
           | [] => PyExc ValueError           (* "".split("") : empty separator *)
           | _ => Ok (VList (map VStr (str_split s sep')))
           end
  end.

(** Apply a filter to an evaluated left value and evaluated arguments
    ([pos]itional, [kw] keyword).  A call shape the Python function does not
    accept (TypeError from the call, or a parse-time validation error) is
    [outside]. *)
Definition apply_filter (pol : upolicy) (f : fname) (left : val)
    (pos : list val) (kw : list (str * val)) : res val :=
  match f, pos, kw with
  | FDefault, [], [] => f_default pol left (VStr []) (VBool false)
  | FDefault, [d], [] => f_default pol left d (VBool false)
  | FDefault, [], [(k, a)] =>
      if str_eqb k s_allow_false then f_default pol left (VStr []) a else outside
  | FDefault, [d], [(k, a)] =>
      if str_eqb k s_allow_false then f_default pol left d a else outside
  | FSize, [], [] => f_size pol left
  | FFirst, [], [] => f_first pol left
  | FLast, [], [] => f_last pol left
  | FJoin, [], [] => f_join pol left (VStr s_space)
  | FJoin, [s], [] => f_join pol left s
  | FUpcase, [], [] => do s <- to_liquid_string pol left;; do u <- ascii_upper s;; Ok (VStr u)
  | FDowncase, [], [] => do s <- to_liquid_string pol left;; do u <- ascii_lower s;; Ok (VStr u)
  | FAppend, [a], [] =>
      do s <- to_liquid_string pol left;; do t <- to_liquid_string pol a;; Ok (VStr (s ++ t))
  | FPrepend, [a], [] =>
      do s <- to_liquid_string pol left;; do t <- to_liquid_string pol a;; Ok (VStr (t ++ s))
  | FEscape, [], [] => do s <- to_liquid_string pol left;; Ok (VStr (html_escape s))
  | FPlus, [a], [] => do x <- math_left pol left;; do y <- num_arg0 a;; Ok (VInt (x + y))
  | FMinus, [a], [] => do x <- math_left pol left;; do y <- num_arg0 a;; Ok (VInt (x - y))
  | FTimes, [a], [] => do x <- math_left pol left;; do y <- num_arg0 a;; Ok (VInt (x * y))
  | FWhere, [k], [] => f_where pol left k VNil
  | FWhere, [k; v], [] => f_where pol left k v
  | FMap, [k], [] => f_map pol left k
  | FSort, [], [] => f_sort pol left VNil
  | FSort, [k], [] => f_sort pol left k
  | FConcat, [o], [] => f_concat pol left o
  | FCompact, [], [] => f_compact pol left None
  | FCompact, [k], [] => f_compact pol left (Some k)
  | FUniq, [], [] => f_uniq pol left
  | FUniq, [k], [] =>                              (* uniq: nil / uniq: missing: no key; keyed uniq is outside *)
      match k with VNil | VUndef _ => f_uniq pol left | _ => outside end
  | FSum, [], [] => f_sum pol left None
  | FSum, [k], [] => f_sum pol left (Some k)
  | FSlice, [s], [] => f_slice pol left s (VInt 1)
  | FSlice, [s; l], [] => f_slice pol left s l
  | FSplit, [s], [] => f_split pol left s
  | FReverse, [], [] => do items <- sequence_arg pol left;; Ok (VList (rev items))
  | _, _, _ => outside
  end.

(** * Expressions *)

Inductive cmpop := CEq | CNe | CLt | CLe | CGt | CGe | CContains | CIn.

Inductive lit := LNil | LBool (b : bool) | LInt (z : Z) | LStr (s : str).
Definition val_of_lit (l : lit) : val :=
  match l with LNil => VNil | LBool b => VBool b | LInt z => VInt z | LStr s => VStr s end.

Inductive expr :=
| ELit (l : lit)                                   (* nil true false int string *)
| EPath (root : str) (segs : list seg)
| EArray (items : list expr)
| EFilter (e : expr) (f : fname) (pos : list expr) (kw : list (str * expr))
| ETernary (left cond : expr) (alt : option expr)
| ENot (e : expr) | EAnd (a b : expr) | EOr (a b : expr)
| ECmp (op : cmpop) (a b : expr)
with seg :=
| SName (s : str) | SIdx (z : Z) | SExpr (e : expr).

Record ctx := {
  scopes : list (list (str * val));   (* pushed by context.extend(), innermost first *)
  locals : list (str * val);
  globals : list (str * val)
}.

Fixpoint scope_lookup (k : str) (ss : list (list (str * val))) : option val :=
  match ss with
  | [] => None
  | s :: t => match assoc k s with Some v => Some v | None => scope_lookup k t end
  end.

(** What a failed lookup produces: [env.undefined(root, hint=..., token=...)]. *)
Definition miss (pol : upolicy) (root : str) : res val :=
  match pol with
  | PProbe => LErr LiquidNameError None
  | _ => Ok (VUndef root)
  end.

Definition len_val (pol : upolicy) (obj : val) : option (res val) :=
  match obj with
  | VStr s => Some (Ok (VInt (Z.of_nat (length s))))
  | VList l => Some (Ok (VInt (Z.of_nat (length l))))
  | VDict d => Some (Ok (VInt (Z.of_nat (length d))))
  | VUndef _ => Some (do _ <- poke pol DLen;; Ok (VInt 0))
  | _ => None
  end.

Definition is_lookup_error {A} (r : res A) : bool :=
  match r with PyExc KeyError | PyExc IndexError | PyExc TypeError => true | _ => false end.

(** context.py:202-241 RenderContext.get_item. *)
Definition get_item (pol : upolicy) (obj key : val) : res val :=
  do key <- unliquid pol key;;
  match key with
  | VStr k =>
      if str_eqb k s_size then
        let r := py_getitem pol obj key in
        if is_lookup_error r then
          match len_val pol obj with Some l => l | None => r end
        else r
      else if str_eqb k s_first then
        let r := py_getitem pol obj key in
        if is_lookup_error r then
          match obj with
          | VDict (_ :: _) => outside              (* next(islice(obj.items(), 1)): a tuple *)
          | VList _ | VStr _ => py_getitem pol obj (VInt 0)
          | _ => r
          end
        else r
      else if str_eqb k s_last then
        let r := py_getitem pol obj key in
        if is_lookup_error r then
          match obj with
          | VList _ | VStr _ => py_getitem pol obj (VInt (-1))
          | _ => r
          end
        else r
      else py_getitem pol obj key
  | _ => py_getitem pol obj key
  end.

Fixpoint walk (pol : upolicy) (root : str) (obj : val) (keys : list val) : res val :=
  match keys with
  | [] => Ok obj
  | k :: t =>
      let r := get_item pol obj k in
      if is_lookup_error r then miss pol root
      else do o <- r;; walk pol root o t
  end.

(** context.py:114-157 RenderContext.get; the scope is
    [extend()-ed namespaces ..., locals, globals, builtin (now, today), counters]. *)
Definition ctx_get (pol : upolicy) (c : ctx) (root : str) (keys : list val) : res val :=
  if str_eqb root s_forloop && negb (match scopes c with [] => true | _ => false end)
  then outside          (* the ForLoop helper object of an active loop is not modelled *)
  else
  match scope_lookup root (scopes c) with
  | Some o => walk pol root o keys
  | None =>
  match assoc root (locals c) with
  | Some o => walk pol root o keys
  | None =>
  match assoc root (globals c) with
  | Some o => walk pol root o keys
  | None =>
      if str_eqb root s_now || str_eqb root s_today then outside
      else miss pol root
  end end end.

Definition cmp_eval (pol : upolicy) (op : cmpop) (l r : val) : res bool :=
  match op with
  | CEq => liq_eq pol l r
  | CNe => do b <- liq_eq pol l r;; Ok (negb b)
  | CLt => liq_lt pol l r
  | CGt => liq_lt pol r l
  | CLe => do b <- liq_eq pol l r;; if b then Ok true else liq_lt pol l r
  | CGe => do b <- liq_eq pol l r;; if b then Ok true else liq_lt pol r l
  | CContains => liq_contains pol l r
  | CIn => liq_contains pol r l
  end.

(** GtExpression and InExpression evaluate their RIGHT operand first
    (expressions.py:1501-1513, 1556-1566). *)
Definition right_first (op : cmpop) : bool :=
  match op with CGt | CIn => true | _ => false end.

(** One evaluation step; [ev] evaluates sub-expressions (the same function
    with less fuel). *)
Definition eval_step (pol : upolicy) (ev : ctx -> expr -> res val) (c : ctx) (e : expr) : res val :=
  match e with
  | ELit l => Ok (val_of_lit l)
  | EPath root segs =>
      do keys <- mapM (fun s => match s with
                                | SName n => Ok (VStr n)
                                | SIdx z => Ok (VInt z)
                                | SExpr e' => ev c e'
                                end) segs;;
      ctx_get pol c root keys
  | EArray items => do vs <- mapM (ev c) items;; Ok (VList vs)
  | EFilter e' fn pos kw =>
      do lv <- ev c e';;
      do pv <- mapM (ev c) pos;;
      do kv <- mapM (fun p => do v <- ev c (snd p);; Ok (fst p, v)) kw;;
      wrap_type_error (apply_filter pol fn lv pv kv)
  | ETernary l cnd alt =>
      do cv <- ev c cnd;;
      do b <- is_truthy pol cv;;
      if b then ev c l
      else match alt with Some a => ev c a | None => Ok VNil end
  | ENot e' => do v <- ev c e';; do b <- is_truthy pol v;; Ok (VBool (negb b))
  | EAnd a b =>
      do x <- ev c a;; do bx <- is_truthy pol x;;
      if bx then do y <- ev c b;; do by_ <- is_truthy pol y;; Ok (VBool by_)
      else Ok (VBool false)
  | EOr a b =>
      do x <- ev c a;; do bx <- is_truthy pol x;;
      if bx then Ok (VBool true)
      else do y <- ev c b;; do by_ <- is_truthy pol y;; Ok (VBool by_)
  | ECmp op a b =>
      if right_first op then
        do y <- ev c b;; do x <- ev c a;;
        do r <- cmp_eval pol op x y;; Ok (VBool r)
      else
        do x <- ev c a;; do y <- ev c b;;
        do r <- cmp_eval pol op x y;; Ok (VBool r)
  end.

Fixpoint eval (pol : upolicy) (fuel : nat) (c : ctx) (e : expr) : res val :=
  match fuel with
  | O => OutOfFuel
  | S f => eval_step pol (eval pol f) c e
  end.

(** A keyword and a positional argument list are evaluated in source order by
    Filter.evaluate_args; the harness prints positional arguments first, so
    [pos] before [kw] is the source order. *)

(** * Statements *)

Inductive stmt :=
| SText (s : str)
| SOutput (e : expr)
| SEcho (e : expr)
| SAssign (x : str) (e : expr)
| SCapture (x : str) (body : list stmt)
| SIf (c : expr) (t : list stmt) (elifs : list (expr * list stmt)) (f : option (list stmt))
| SUnless (c : expr) (t : list stmt) (elifs : list (expr * list stmt)) (f : option (list stmt))
| SCase (e : expr) (whens : list (list expr * list stmt)) (dflt : option (list stmt))
| SFor (x : str) (it : expr) (limit : option expr)
       (body : list stmt) (dflt : option (list stmt)).

(** Node.blank (ast.py:33-38, content.py:41, output.py:31, the tags). *)
Fixpoint blank_stmt (s : stmt) : bool :=
  let blank_block := fix bb (b : list stmt) : bool :=
    match b with [] => true | x :: t => blank_stmt x && bb t end in
  let blank_opt := fun (o : option (list stmt)) =>
    match o with None => true | Some b => blank_block b end in
  match s with
  | SText t => forallb is_space t
  | SOutput _ | SEcho _ => false
  | SAssign _ _ => true
  | SCapture _ _ => true
  | SIf _ t alts f | SUnless _ t alts f =>
      blank_block t
      && (fix ba (a : list (expr * list stmt)) : bool :=
            match a with [] => true | (_, b) :: r => blank_block b && ba r end) alts
      && blank_opt f
  | SCase _ whens d =>
      (fix bw (w : list (list expr * list stmt)) : bool :=
         match w with [] => true | (_, b) :: t => blank_block b && bw t end) whens
      && blank_opt d
  | SFor _ _ _ body d => blank_block body && blank_opt d
  end.
Definition blank_block (b : list stmt) : bool := forallb blank_stmt b.

(** LoopExpression._to_iter (expressions.py:1625-1637). *)
Definition to_iter (pol : upolicy) (v : val) : res (list val) :=
  match v with
  | VUndef _ => do _ <- poke pol DAttr;; do _ <- poke pol DLen;; Ok []   (* obj.items(), len(obj) *)
  | VDict [] => Ok []
  | VDict _ => outside                                (* (key, value) tuples *)
  | VList l => Ok l
  | VStr s => Ok (map (fun ch => VStr [ch]) s)
  | VNil | VBool _ | VInt _ => LErr LiquidTypeError None
  end.

Definition CONTEXT_DEPTH_LIMIT : nat := 30.

Definition set_local (c : ctx) (x : str) (v : val) : ctx :=
  {| scopes := scopes c; locals := dict_set x v (locals c); globals := globals c |}.
Definition push_scope (c : ctx) (ns : list (str * val)) : ctx :=
  {| scopes := ns :: scopes c; locals := locals c; globals := globals c |}.
Definition pop_scope (c : ctx) : ctx :=
  {| scopes := tl (scopes c); locals := locals c; globals := globals c |}.

Definition opt_block (o : option (list stmt)) : list stmt :=
  match o with Some b => b | None => [] end.

Definition evalT := ctx -> expr -> res val.
Definition blockT := ctx -> list stmt -> res (ctx * str).

(** BlockNode.render_to_output: a blank block renders into a NullIO. *)
Definition run_block (ex : blockT) : blockT := fun c b =>
  do r <- ex c b;;
  Ok (fst r, if blank_block b then [] else snd r).

Definition opt_run (blk : blockT) (c : ctx) (o : option (list stmt)) : res (ctx * str) :=
  match o with Some b => blk c b | None => Ok (c, []) end.

(** IfNode / UnlessNode.render_to_output after a false first condition: the
    [elsif] conditions are evaluated in order, only until the first true one;
    the [else] block only if none is. *)
Fixpoint elif_go (pol : upolicy) (ev : evalT) (blk : blockT) (c : ctx)
    (alts : list (expr * list stmt)) (e : option (list stmt)) : res (ctx * str) :=
  match alts with
  | [] => opt_run blk c e
  | (cnd, b) :: rest =>
      do v <- ev c cnd;; do t <- is_truthy pol v;;
      if t then blk c b else elif_go pol ev blk c rest e
  end.

(** _AnyExpression.evaluate: any(_eq(left, right.evaluate(context)) ...):
    lazily, the values after the first match are not evaluated. *)
Fixpoint case_any (pol : upolicy) (ev : expr -> res val) (lv : val) (es : list expr) : res bool :=
  match es with
  | [] => Ok false
  | e1 :: es' =>
      do rv <- ev e1;; do q <- liq_eq pol lv rv;;
      if q then Ok true else case_any pol ev lv es'
  end.

(** CaseNode.render_to_output: every [when] is tried (the subject is
    re-evaluated for each), several may match. *)
Fixpoint case_go (pol : upolicy) (ev : evalT) (blk : blockT) (e : expr)
    (ws : list (list expr * list stmt)) (c : ctx) (out : str) (matched : bool)
    : res (ctx * str * bool) :=
  match ws with
  | [] => Ok (c, out, matched)
  | (es, b) :: ws' =>
      do lv <- ev c e;;
      do hit <- case_any pol (ev c) lv es;;
      if hit then do r <- blk c b;; case_go pol ev blk e ws' (fst r) (out ++ snd r) true
      else case_go pol ev blk e ws' c out matched
  end.

(** ForNode.render_to_output: the loop namespace is pushed for the block and
    popped after it ([context.loop] / [context.extend]). *)
Fixpoint for_loop (blk : blockT) (x : str) (body : list stmt) (its : list val) (c : ctx) (out : str)
    : res (ctx * str) :=
  match its with
  | [] => Ok (c, out)
  | itm :: its' =>
      do r <- blk (push_scope c [(x, itm)]) body;;
      for_loop blk x body its' (pop_scope (fst r)) (out ++ snd r)
  end.

Definition exec_stmt (pol : upolicy) (ev : evalT) (blk : blockT) (c : ctx) (s : stmt) : res (ctx * str) :=
  match s with
  | SText t => Ok (c, t)
  | SOutput e | SEcho e =>
      do v <- ev c e;; do o <- to_liquid_string pol v;; Ok (c, o)
  | SAssign x e => do v <- ev c e;; Ok (set_local c x v, [])
  | SCapture x body =>
      do r <- blk c body;; Ok (set_local (fst r) x (VStr (snd r)), [])
  | SIf cnd t alts e =>
      do v <- ev c cnd;; do b <- is_truthy pol v;;
      if b then blk c t else elif_go pol ev blk c alts e
  | SUnless cnd t alts e =>
      do v <- ev c cnd;; do b <- is_truthy pol v;;
      if negb b then blk c t else elif_go pol ev blk c alts e
  | SCase e whens d =>
      do r <- case_go pol ev blk e whens c [] false;;
      if snd r then Ok (fst r)
      else do r2 <- opt_run blk (fst (fst r)) d;; Ok (fst r2, snd (fst r) ++ snd r2)
  | SFor x it limit body d =>
      do itv <- ev c it;;
      do items <- to_iter pol itv;;
      do items <- match limit with
                  | None => Ok items
                  | Some le =>
                      do lv <- ev c le;;
                      do n <- to_int_arg pol lv;;
                      Ok (firstn (Z.to_nat n) items)       (* limit = max(limit, 0) *)
                  end;;
      match items with
      | [] => opt_run blk c d
      | _ =>
          if Nat.ltb CONTEXT_DEPTH_LIMIT (5 + length (scopes c))
          then LErr ContextDepthError None
          else for_loop blk x body items c []
      end
  end.

Fixpoint exec (pol : upolicy) (fuel : nat) (c : ctx) (prog : list stmt) : res (ctx * str) :=
  match fuel with
  | O => OutOfFuel
  | S f =>
      match prog with
      | [] => Ok (c, [])
      | s :: rest =>
          do r1 <- exec_stmt pol (eval pol f) (run_block (exec pol f)) c s;;
          do r2 <- exec pol f (fst r1) rest;;
          Ok (fst r2, snd r1 ++ snd r2)
      end
  end.

(** [Environment(undefined=pol).from_string(prog).render(data)]. *)
Definition render (pol : upolicy) (fuel : nat) (prog : list stmt) (data : list (str * val)) : res str :=
  do r <- exec pol fuel {| scopes := []; locals := []; globals := data |} prog;;
  Ok (snd r).

(** * No undefined inside a value (caller data) *)

Fixpoint nu (v : val) : bool :=
  match v with
  | VUndef _ => false
  | VList l => forallb nu l
  | VDict kvs => forallb (fun kv => nu (snd kv)) kvs
  | _ => true
  end.
Definition nu_ns (ns : list (str * val)) : bool := forallb (fun kv => nu (snd kv)) ns.
Definition nu_ctx (c : ctx) : bool :=
  forallb nu_ns (scopes c) && nu_ns (locals c) && nu_ns (globals c).

(** * Boolean equality on values (for the correspondence runner) *)

Fixpoint val_eqb (a b : val) {struct a} : bool :=
  match a, b with
  | VNil, VNil => true
  | VBool x, VBool y => Bool.eqb x y
  | VInt x, VInt y => x =? y
  | VStr x, VStr y => str_eqb x y
  | VList x, VList y =>
      (fix go (x y : list val) : bool :=
         match x, y with
         | [], [] => true
         | a' :: x', b' :: y' => val_eqb a' b' && go x' y'
         | _, _ => false
         end) x y
  | VDict x, VDict y =>
      (fix go (x y : list (str * val)) : bool :=
         match x, y with
         | [], [] => true
         | (k, a') :: x', (k', b') :: y' => str_eqb k k' && val_eqb a' b' && go x' y'
         | _, _ => false
         end) x y
  | VUndef x, VUndef y => str_eqb x y
  | _, _ => false
  end.

(** * Specification vocabulary: the root variable names a program mentions *)

Fixpoint roots_e (e : expr) : list str :=
  match e with
  | ELit _ => []
  | EPath r segs => r :: flat_map roots_s segs
  | EArray items => flat_map roots_e items
  | EFilter e' _ pos kw =>
      roots_e e' ++ flat_map roots_e pos ++ flat_map (fun p => roots_e (snd p)) kw
  | ETernary l c alt =>
      roots_e l ++ roots_e c ++ match alt with Some a => roots_e a | None => [] end
  | ENot e' => roots_e e'
  | EAnd a b | EOr a b => roots_e a ++ roots_e b
  | ECmp _ a b => roots_e a ++ roots_e b
  end
with roots_s (s : seg) : list str :=
  match s with SExpr e => roots_e e | _ => [] end.

Definition roots_oe (o : option expr) : list str :=
  match o with Some e => roots_e e | None => [] end.

Fixpoint roots_st (s : stmt) : list str :=
  let rb := fix rb (b : list stmt) : list str :=
    match b with [] => [] | x :: t => roots_st x ++ rb t end in
  let ro := fun (o : option (list stmt)) => match o with Some b => rb b | None => [] end in
  match s with
  | SText _ => []
  | SOutput e | SEcho e | SAssign _ e => roots_e e
  | SCapture _ b => rb b
  | SIf c t alts f | SUnless c t alts f =>
      roots_e c ++ rb t ++
      (fix ra (a : list (expr * list stmt)) : list str :=
         match a with [] => [] | (e, b) :: r => roots_e e ++ rb b ++ ra r end) alts
      ++ ro f
  | SCase e ws d =>
      roots_e e ++
      (fix rw (w : list (list expr * list stmt)) : list str :=
         match w with [] => [] | (es, b) :: t => flat_map roots_e es ++ rb b ++ rw t end) ws
      ++ ro d
  | SFor _ it lim body d => roots_e it ++ roots_oe lim ++ rb body ++ ro d
  end.
Definition roots_b (b : list stmt) : list str := flat_map roots_st b.
