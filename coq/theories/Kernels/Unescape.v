(** Kernels/Unescape.v — MODEL of liquid2/unescape.py (after the proposed fix
    0003: a trailing backslash raises LiquidSyntaxError instead of IndexError).

    Transcribed function by function, with the index arithmetic of the Python
    (indexes are [nat]; [value[i]] is [nth_error value i]; [value[i:j]] is
    [slice value i j]).  Error positions (the messages only use them) are not
    modelled: every syntax error is [LErr LiquidSyntaxError None].

    The model is total over all strings, including strings with lone
    surrogates. *)
From LQ Require Import Base.Str.
Local Open Scope N_scope.

Definition BSL : N := 92.   (* backslash *)
Definition DQ  : N := 34.   (* double quote *)
Definition SQ  : N := 39.   (* single quote *)
Definition DOLLAR : N := 36.
Definition LBRACE : N := 123.
Definition RBRACE : N := 125.
Definition CH_u : N := 117.

Definition syntax_error {A} : res A := LErr LiquidSyntaxError None.

(** [value[i:j]] for [0 <= i <= j] (Python clamps at the end of the string). *)
Definition slice (v : str) (i j : nat) : str := firstn (j - i) (skipn i v).

(** unescape.py:128-133 *)
Definition is_high_surrogate (cp : N) : bool := (0xD800 <=? cp) && (cp <=? 0xDBFF).
Definition is_low_surrogate (cp : N) : bool := (0xDC00 <=? cp) && (cp <=? 0xDFFF).
Definition is_surrogate (cp : N) : bool := (0xD800 <=? cp) && (cp <=? 0xDFFF).

(** unescape.py:122-125 [_string_from_code_point] *)
Definition string_from_code_point (cp : N) : res char :=
  if cp <? 8 then syntax_error else Ok cp.

(** unescape.py:104-120 [_parse_hex_digits]: the code points of the window, one
    by one (since 2f6fa4b; before, [digits.encode()] made a lone surrogate a
    UnicodeEncodeError).  Everything outside the three ranges, non-ASCII and
    lone surrogates included, takes the [else] branch. *)
Fixpoint parse_hex_loop (ds : str) (cp : N) : res N :=
  match ds with
  | [] => Ok cp
  | d :: ds' =>
      let cp := N.shiftl cp 4 in
      if (48 <=? d) && (d <=? 57) then parse_hex_loop ds' (N.lor cp (d - 48))
      else if (65 <=? d) && (d <=? 70) then parse_hex_loop ds' (N.lor cp (d - 65 + 10))
      else if (97 <=? d) && (d <=? 102) then parse_hex_loop ds' (N.lor cp (d - 97 + 10))
      else syntax_error
  end.

Definition parse_hex_digits (digits : str) : res N := parse_hex_loop digits 0.

Definition at_is (v : str) (i : nat) (c : N) : bool :=
  match nth_error v i with Some x => x =? c | None => false end.

(** unescape.py:59-101 [_decode_hex_char]: [index] points at the [u]; returns
    the code point and the index of the last character consumed. *)
Definition decode_hex_char (value : str) (index : nat) : res (N * nat) :=
  let length := List.length value in
  if (length <=? index + 4)%nat then syntax_error            (* index + 4 >= length *)
  else
    let index := (index + 1)%nat in                           (* move past 'u' *)
    do code_point <- parse_hex_digits (slice value index (index + 4)) ;;
    if is_low_surrogate code_point then syntax_error
    else if is_high_surrogate code_point then
      if negb ((index + 9 <? length)%nat && at_is value (index + 4) BSL
               && at_is value (index + 5) CH_u)
      then syntax_error
      else
        do low <- parse_hex_digits (slice value (index + 6) (index + 10)) ;;
        if negb (is_low_surrogate low) then syntax_error
        else Ok (0x10000 + N.lor (N.shiftl (N.land code_point 0x03FF) 10)
                                 (N.land low 0x03FF),
                 (index + 9)%nat)
    else Ok (code_point, (index + 3)%nat).

(** unescape.py:26-56 [_decode_escape_sequence]: [index] points at the
    character after the backslash. *)
Definition decode_escape_sequence (value : str) (index : nat) : res (char * nat) :=
  match nth_error value index with
  | None => syntax_error          (* fix 0003; was: IndexError *)
  | Some ch =>
      if ch =? DQ then Ok (DQ, index)
      else if ch =? DOLLAR then Ok (DOLLAR, index)
      else if ch =? BSL then Ok (BSL, index)
      else if ch =? 47 then Ok (47, index)          (* / *)
      else if ch =? 98 then Ok (8, index)           (* b *)
      else if ch =? 102 then Ok (12, index)         (* f *)
      else if ch =? 110 then Ok (10, index)         (* n *)
      else if ch =? 114 then Ok (13, index)         (* r *)
      else if ch =? 116 then Ok (9, index)          (* t *)
      else if ch =? CH_u then
        do r <- decode_hex_char value index ;;
        let '(code_point, index) := r in
        do c <- string_from_code_point code_point ;;
        Ok (c, index)
      else syntax_error
  end.

(** One iteration of the [while] loop of [unescape] (unescape.py:13-21) at an
    [index < len(value)]: the decoded character and the index of the last
    character consumed (the loop then adds 1). *)
Definition unescape_body (value : str) (index : nat) : res (char * nat) :=
  match nth_error value index with
  | None => PyExc IndexError      (* not reachable: the loop tests index < len *)
  | Some ch =>
      if ch =? BSL then decode_escape_sequence value (index + 1)
      else do c <- string_from_code_point ch ;; Ok (c, index)
  end.

(** unescape.py:7-23.  The list [unescaped] is built front to back; an error in
    a later iteration discards it, so consing after the recursive call is
    observationally the same.  [index] grows by at least one per iteration:
    [S (length value)] iterations always suffice
    (Proofs/Unescape_proofs.v [unescape_fuel_enough]). *)
Fixpoint unescape_loop (fuel : nat) (value : str) (index : nat) : res str :=
  match fuel with
  | O => OutOfFuel
  | S fuel' =>
      if (index <? List.length value)%nat then
        do r <- unescape_body value index ;;
        let '(c, index') := r in
        do rest <- unescape_loop fuel' value (index' + 1) ;;
        Ok (c :: rest)
      else Ok []
  end.

Definition unescape (value : str) : res str :=
  unescape_loop (S (List.length value)) value 0.

(** [str.replace("\\'", "'")] (expressions.py:365,674,1172,1881,1906,
    lexer.py:356): leftmost, non-overlapping. *)
Fixpoint replace_bsl_sq (v : str) : str :=
  match v with
  | [] => []
  | c :: r =>
      match r with
      | d :: r' => if (c =? BSL) && (d =? SQ) then SQ :: replace_bsl_sq r'
                   else c :: replace_bsl_sq r
      | [] => [c]
      end
  end.

(** * Parse sites.  Each site that turns the raw text of a string token into a
    value is a separate definition so that a change at one site shows. *)
Inductive site :=
| SitePrimitive          (* expressions.py parse_primitive:        {{ '..' }}, filter args, ranges, render name (fix 0002) *)
| SiteBoolPrimitive      (* expressions.py parse_boolean_primitive: if/unless/ternary conditions, assign? *)
| SiteTemplatePart       (* expressions.py TemplateString.__init__ *)
| SiteIdentifier         (* expressions.py parse_string_or_identifier *)
| SiteStringOrPath       (* expressions.py parse_string_or_path:     include name *)
| SitePathSegment.       (* lexer.py:350-357 + expressions.py Path.__init__:515 *)

Definition site_value (st : site) (q : N) (raw : str) : res str :=
  match st with
  | SitePrimitive => if q =? SQ then unescape (replace_bsl_sq raw) else unescape raw
  | SiteBoolPrimitive => if q =? SQ then unescape (replace_bsl_sq raw) else unescape raw
  | SiteTemplatePart => if q =? SQ then unescape (replace_bsl_sq raw) else unescape raw
  | SiteIdentifier => if q =? SQ then unescape (replace_bsl_sq raw) else unescape raw
  | SiteStringOrPath => if q =? SQ then unescape (replace_bsl_sq raw) else unescape raw
  | SitePathSegment => unescape (if q =? SQ then replace_bsl_sq raw else raw)
  end.

Definition all_sites : list site :=
  [SitePrimitive; SiteBoolPrimitive; SiteTemplatePart; SiteIdentifier;
   SiteStringOrPath; SitePathSegment].
