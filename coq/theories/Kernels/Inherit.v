(** Kernels/Inherit.v — model of template inheritance
    (liquid2/builtin/tags/extends_tag.py, Template.render_with_context in
    liquid2/template.py:104-136, RenderContext.extend / copy in
    liquid2/context.py:311-386, the error classes of liquid2/exceptions.py).

    Templates are abstracted to what inheritance depends on: text, [block]
    tags (name, [required], body, the optional name written on [endblock]),
    [{{ block.super }}], [extends] tags, silent tags (assign, comment) and
    [if] / [for] wrappers -- the last three because every body is rendered
    by ast.BlockNode.render_to_output, which drops a body whose nodes are all
    [blank] when Environment.suppress_blank_control_flow_blocks is set; the
    model carries the static blank flag of each node class ([blank_item]).  A loader is an association list
    name -> template (DictLoader / CachingDictLoader).

    What is transcribed, function by function:
      - BlockTag.parse's endblock-name check            [endok_item], [load]
      - _find_inheritance_nodes (DFS, preorder)         [find_exts], [find_blocks]
      - _stack_blocks (too many extends, duplicates)    [stack_blocks]
      - _store_blocks (required, parent = next item)    [store_blocks], [push]
      - _build_block_stacks (seen set, the while loop)  [step], [loop], [build_block_stacks]
      - BlockNode.render_to_output, BlockDrop['super']  [item_step], [R]
      - ExtendsNode.render_to_output, StopRender,
        Template.render_with_context                    [pre], [render_leaf]
      - RenderContext.extend / copy depth checks        the [sf] / [df] counters
      - the include / render tags as entry points       [run_wrapper]

    The two resource counters of a render context are modelled exactly,
    because they are what ends the recursion of the real code:
      df = context_depth_limit + 1 - ctx._copy_depth   (copies still allowed)
      sf = context_depth_limit + 1 - ctx.scope.size()  (extends still allowed)
    [context.copy] raises ContextDepthError iff df = 0, [context.extend] iff
    sf = 0; a fresh context has scope size 4.  All recursion of the render
    functions is structural on these counters: no fuel, no OutOfFuel.  Only
    the chain walk has fuel ([loop]); Proofs/Inherit_proofs.v shows that
    [length ld + 1] always suffices.

    One clause is a summary, not a transcription: an [extends] tag met while a
    block body is rendered in the base phase re-enters _build_block_stacks and
    renders the base again, without bound; the real code ends this with
    ContextDepthError (or CPython's RecursionError).  [item_step] returns
    ContextDepthError there.  No theorem about well-formed chains depends on
    that clause (it is excluded by [r <> cde]).

    Model file: definitions only.  Proofs: Proofs/Inherit_proofs.v.
    Specification: [spec_inherit] at the end of this file. *)
From LQ Require Export Base.Str.

(** * Syntax *)

(** Container tags whose body is an ast.BlockNode.  [WIf] {% if true %},
    [WUnless] {% unless false %}, [WCase] {% case 1 %}{% when 1 %}, [WLiq] the
    lines of a {% liquid %} tag, [WCap] {% capture c %}..{% endcapture %}{{ c }}
    render their body in the same scope; [WFor] {% for i in (1..1) %} and
    [WWith] {% with x: 1 %} push one scope (context.loop / context.extend). *)
Inductive wrap := WIf | WFor | WUnless | WCase | WWith | WCap | WLiq.

Definition wrap_scoped (k : wrap) : bool :=
  match k with WFor | WWith => true | _ => false end.

Inductive item :=
| Text (s : str)
| Blk (n : str) (req : bool) (body : list item) (endn : option str)
| Super                       (* {{ block.super }} *)
| Ext (n : str)               (* {% extends 'n' %} *)
| Quiet                       (* a tag that writes nothing: assign, comment *)
| Wrap (k : wrap) (body : list item).
                              (* {% if true %}body{% endif %}  /
                                 {% for i in (1..1) %}body{% endfor %} *)

Definition template := list item.
Definition loader := list (str * template).

(** A block definition as the stacks hold it (_BlockStackItem: block,
    required; [parent] is the next item of the same stack; token and
    source_name only feed error messages). *)
Record bdef := { b_name : str; b_req : bool; b_body : list item }.

Definition cde {A} : res A := LErr ContextDepthError None.
Definition tie {A} : res A := LErr TemplateInheritanceError None.
Definition reqerr {A} : res A := LErr RequiredBlockError None.
Definition notfound {A} : res A := LErr TemplateNotFoundError None.

(** * The static [blank] flag of each node class and blank-block suppression

    Node.blank defaults to True (ast.py:38: assign, comment, ...);
    ContentNode.blank = [not text or text.isspace()] (content.py:41);
    OutputNode, ExtendsNode and the block tag's BlockNode set it to False
    (output.py:31, extends_tag.py:51,171); IfNode / ForNode / UnlessNode /
    CaseNode / WithNode / LiquidNode inherit it from their block (if_tag.py:45,
    for_tag.py:47, unless_tag.py:45, case_tag.py:53, with_tag.py:40,
    liquid_tag.py:32); CaptureNode keeps the default True, but the model's
    [Wrap WCap] stands for the capture followed by the output of its variable; ast.BlockNode (the body of
    every block tag, if and for) is blank iff all its nodes are (ast.py:146). *)

(** [str.isspace] on one code point (the code points below 256; the
    generated texts use only space and newline as whitespace). *)
Definition is_ws (c : N) : bool :=
  ((9 <=? c) && (c <=? 13) || (28 <=? c) && (c <=? 32) || (c =? 133) || (c =? 160))%N.

Fixpoint blank_item (it : item) : bool :=
  match it with
  | Text s => forallb is_ws s
  | Quiet => true
  | Wrap WCap _ => false            (* the capture tag is blank, the {{ c }} after it is not *)
  | Wrap _ b => forallb blank_item b
  | Blk _ _ _ _ => false
  | Super => false
  | Ext _ => false
  end.
Definition blank_body (b : list item) : bool := forallb blank_item b.

(** ast.BlockNode.render_to_output (ast.py:151-158): with
    [env.suppress_blank_control_flow_blocks], a blank body is rendered into
    a NullIO (errors still propagate) and contributes nothing. *)
Definition tblock (suppress : bool) (b : list item) (r : res str) : res str :=
  if suppress && blank_body b then (do _ <- r;; Ok []) else r.
Definition tblock_pre (suppress : bool) (b : list item) (r : res (str * bool)) : res (str * bool) :=
  if suppress && blank_body b then (do p <- r;; Ok ([], snd p)) else r.

(** * Parsing: BlockTag.parse, extends_tag.py:320-331 *)

(** [{% endblock m %}] after [{% block n %}] with m <> n raises
    TemplateInheritanceError while the template is parsed. *)
Fixpoint endok_item (it : item) : bool :=
  match it with
  | Blk n _ b e =>
      forallb endok_item b
      && match e with None => true | Some m => str_eqb m n end
  | Wrap _ b => forallb endok_item b
  | _ => true
  end.

(** [env.get_template(name)] on a dict loader: TemplateNotFoundError, or the
    parse error above, or the parsed template. *)
Definition load (ld : loader) (n : str) : res template :=
  match assoc n ld with
  | None => notfound
  | Some t => if forallb endok_item t then Ok t else tie
  end.

(** * _find_inheritance_nodes, extends_tag.py:514-534 (preorder DFS through
      the children of block, if and for tags; an extends tag has no children here) *)

Fixpoint exts_item (it : item) : list str :=
  match it with
  | Ext n => [n]
  | Blk _ _ b _ => flat_map exts_item b
  | Wrap _ b => flat_map exts_item b
  | _ => []
  end.
Definition find_exts (t : list item) : list str := flat_map exts_item t.

Fixpoint blocks_item (it : item) : list bdef :=
  match it with
  | Blk n r b _ => {| b_name := n; b_req := r; b_body := b |} :: flat_map blocks_item b
  | Wrap _ b => flat_map blocks_item b
  | _ => []
  end.
Definition find_blocks (t : list item) : list bdef := flat_map blocks_item t.

(** * _store_blocks, extends_tag.py:571-592 *)

Definition stacks := list (str * list bdef).

Definition stack_of (st : stacks) (n : str) : list bdef :=
  match assoc n st with Some l => l | None => [] end.

(** [block_stacks[name].append(item)] on a defaultdict(list). *)
Fixpoint push (n : str) (d : bdef) (st : stacks) : stacks :=
  match st with
  | [] => [(n, [d])]
  | (k, l) :: st' => if str_eqb n k then (k, l ++ [d]) :: st' else (k, l) :: push n d st'
  end.

Definition store_block (st : stacks) (b : bdef) : stacks :=
  let stack := stack_of st (b_name b) in
  (* required = False if stack and not block.required else block.required *)
  let required :=
    if (match stack with [] => false | _ => true end) && negb (b_req b)
    then false else b_req b in
  push (b_name b) {| b_name := b_name b; b_req := required; b_body := b_body b |} st.

Definition store_blocks (st : stacks) (bs : list bdef) : stacks :=
  fold_left store_block bs st.

(** * _stack_blocks, extends_tag.py:537-568 *)

(** [for block in blocks: if block.name in seen_block_names: raise ...] *)
Fixpoint dup_scan (seen : list str) (l : list str) : bool :=
  match l with
  | [] => false
  | x :: r => mem_str x seen || dup_scan (x :: seen) r
  end.

Definition stack_blocks (st : stacks) (t : template) : res (option str * stacks) :=
  let exts := find_exts t in
  let blocks := find_blocks t in
  if (1 <? length exts)%nat then tie
  else if dup_scan [] (map b_name blocks) then tie
  else Ok (hd_error exts, store_blocks st blocks).

(** * _build_block_stacks, extends_tag.py:408-458 *)

(** [_stack_template_blocks]: returns the parent template, or None. *)
Definition step (ld : loader) (st : stacks) (seen : list str) (t : template)
  : res (option template * stacks * list str) :=
  do (ext, st') <- stack_blocks st t;;
  match ext with
  | None => Ok (None, st', seen)
  | Some n =>
      if mem_str n seen then tie
      else do t' <- load ld n;; Ok (Some t', st', n :: seen)
  end.

(** [while next_template: next_template = step(next_template); if
    next_template: base = next_template]. *)
Fixpoint loop (fuel : nat) (ld : loader) (st : stacks) (seen : list str)
  (base next : template) : res (stacks * template) :=
  match fuel with
  | O => OutOfFuel
  | S f =>
      do (nx, st', seen') <- step ld st seen next;;
      match nx with
      | None => Ok (st', base)
      | Some t' => loop f ld st' seen' t' t'
      end
  end.

Definition build_block_stacks (ld : loader) (st : stacks) (leaf : template)
  : res (stacks * template) :=
  do (nx, st1, seen1) <- step ld st [] leaf;;
  match nx with
  | None => PyExc AssertionError            (* assert base *)
  | Some t1 => loop (length ld + 1) ld st1 seen1 t1 t1
  end.

(** * Rendering in the base phase: BlockNode.render_to_output
      (extends_tag.py:172-222) and BlockDrop.__getitem__ (374-399) *)

(** What [block] is bound to: a drop whose context is the current context
    ([Own parents]) or the enclosing one ([Outer super]: the thunk is what
    [{{ block.super }}] evaluates to, computed in the enclosing context). *)
Inductive drop :=
| Own (ps : list bdef)
| Outer (th : unit -> res str).

Definition cat_map (f : item -> res str) : list item -> res str :=
  fix cm (its : list item) : res str :=
  match its with
  | [] => Ok []
  | it :: r => do a <- f it;; do b <- cm r;; Ok (a ++ b)
  end.

Section Base.
  Variable limit : nat.        (* Environment.context_depth_limit *)
  Variable suppress : bool.    (* Environment.suppress_blank_control_flow_blocks *)
  Variable st : stacks.        (* context.tag_namespace["extends"], built *)

  (** One node.  [copy dr body]: render [body] in [context.copy(...)] with
      [block] bound to [dr]; [ext dr body]: render [body] inside
      [with context.extend(...)] (one more scope) with [block] = [dr].
      Every body goes through ast.BlockNode.render ([tblock]). *)
  Definition item_step (copy ext : drop -> list item -> res str) (dr : drop)
    : item -> res str :=
    fix go (it : item) : res str :=
    match it with
    | Text s => Ok s
    | Quiet => Ok []
    | Ext _ => cde                                    (* summary, see header *)
    | Super =>
        match dr with
        | Outer th => th tt
        | Own [] => Ok []                             (* env.undefined("super") *)
        | Own (p :: ps) => tblock suppress (b_body p) (ext (Own ps) (b_body p))
        end
    | Blk n req body _ =>
        match stack_of st n with
        | [] =>                                       (* rendered directly *)
            if req then reqerr else tblock suppress body (ext (Own []) body)
        | top :: rest =>
            if b_req top then reqerr
            else tblock suppress (b_body top)
                   (copy (Outer (fun _ =>
                            match rest with
                            | [] => Ok []
                            | p :: ps => tblock suppress (b_body p) (ext (Own ps) (b_body p))
                            end)) (b_body top))
        end
    | Wrap k body =>            (* same context, or one more scope (for: context.loop; with: extend) *)
        tblock suppress body (if wrap_scoped k then ext dr body else cat_map go body)
    end.

  Fixpoint R (df : nat) : nat -> drop -> list item -> res str :=
    fix Rs (sf : nat) (dr : drop) (its : list item) {struct sf} : res str :=
      cat_map
        (item_step
           (match df with O => fun _ _ => cde | S df' => R df' (limit - 3) end)
           (match sf with O => fun _ _ => cde | S sf' => Rs sf' end)
           dr)
        its.
End Base.

(** * The leaf: Template.render_with_context (template.py:117-122) renders
      the leaf's own nodes until an extends tag raises StopRender;
      ExtendsNode.render_to_output (extends_tag.py:55-61) *)

Definition pre_items (f : item -> res (str * bool)) : list item -> res (str * bool) :=
  fix pi (its : list item) : res (str * bool) :=
  match its with
  | [] => Ok ([], false)
  | it :: r =>
      do (a, stop) <- f it;;
      if stop then Ok (a, true)
      else do (b, stop') <- pi r;; Ok (a ++ b, stop')
  end.

Section Leaf.
  Variable limit : nat.
  Variable suppress : bool.
  Variable ld : loader.
  Variable leaf : template.    (* context.template *)
  Variable df : nat.

  (** ExtendsNode.render_to_output: the chain is built on block stacks of its
      own ([defaultdict(list)], fix 3b75f1e), the base is rendered,
      StopRender. *)
  Definition chain (sf : nat) : res (str * bool) :=
    do (st, base) <- build_block_stacks ld [] leaf;;
    match sf with
    | O => cde                                  (* base.render_with_context: extend *)
    | S sf' => do out <- R limit suppress st df sf' (Own []) base;; Ok (out, true)
    end.

  (** One node of the leaf rendered before StopRender; the block stacks are
      empty, so every block renders directly.  [here]: an extends tag at this
      scope depth; [down]: a body one scope deeper. *)
  Definition pre_item (here : res (str * bool)) (down : list item -> res (str * bool))
    : item -> res (str * bool) :=
    fix go (it : item) : res (str * bool) :=
    match it with
    | Text s => Ok (s, false)
    | Super => Ok ([], false)
    | Quiet => Ok ([], false)
    | Blk n req body _ => if req then reqerr else tblock_pre suppress body (down body)
    | Ext _ => here
    | Wrap k body =>
        let r := tblock_pre suppress body (if wrap_scoped k then down body else pre_items go body) in
        match k with
        | WCap =>               (* StopRender inside a capture: what was captured is never printed *)
            do p <- r;; if snd p then Ok ([], true) else Ok p
        | _ => r
        end
    end.

  Fixpoint pre (sf : nat) (its : list item) {struct sf} : res (str * bool) :=
    pre_items
      (pre_item (chain sf) (match sf with O => fun _ => cde | S sf' => pre sf' end))
      its.
End Leaf.

(** [template.render_with_context(context, buf)] for a context with the given
    counters. *)
Definition render_leaf (limit : nat) (suppress : bool) (ld : loader) (df sf : nat)
  (leaf : template) : res str :=
  match sf with
  | O => cde
  | S sf' => do (out, _) <- pre limit suppress ld leaf df sf' leaf;; Ok out
  end.

(** [env.get_template(name).render()]. *)
Definition render_name (limit : nat) (suppress : bool) (ld : loader) (name : str) : res str :=
  do t <- load ld name;;
  render_leaf limit suppress ld (limit + 1) (limit - 3) t.

(** [env.from_string(w).render()] where [w] is a sequence of
    [{% include 'n' %}] (false) and [{% render 'n' %}] (true) tags.
    include: get_template, context.extend(template=...), render_with_context;
    render: get_template, context.copy, render_with_context. *)
Fixpoint run_wrapper_items (limit : nat) (suppress : bool) (ld : loader) (sf : nat)
  (w : list (bool * str)) : res str :=
  match w with
  | [] => Ok []
  | (is_render, n) :: w' =>
      do a <- (do t <- load ld n;;
               if is_render
               then render_leaf limit suppress ld limit (limit - 3) t
               else match sf with O => cde | S sf' => render_leaf limit suppress ld (limit + 1) sf' t end);;
      do b <- run_wrapper_items limit suppress ld sf w';;
      Ok (a ++ b)
  end.

Definition run_wrapper (limit : nat) (suppress : bool) (ld : loader) (w : list (bool * str)) : res str :=
  match limit - 3 with
  | O => cde
  | S sf => run_wrapper_items limit suppress ld sf w
  end.

(** * Specification (independent of stacks, contexts and limits) *)

Definition ext_of (t : template) : option str := hd_error (find_exts t).

Fixpoint has_dup (l : list str) : bool :=
  match l with [] => false | x :: r => mem_str x r || has_dup r end.

(** At most one extends tag, no block name twice. *)
Definition wf_template (t : template) : bool :=
  (length (find_exts t) <=? 1)%nat && negb (has_dup (map b_name (find_blocks t))).

(** The chain leaf -> root; circular chains, ill-formed or unparsable
    templates are template-inheritance errors. *)
Fixpoint spec_chain (fuel : nat) (ld : loader) (visited : list str) (t : template)
  : res (list template) :=
  match fuel with
  | O => OutOfFuel
  | S f =>
      if negb (wf_template t) then tie
      else match ext_of t with
           | None => Ok [t]
           | Some n =>
               if mem_str n visited then tie
               else match assoc n ld with
                    | None => notfound
                    | Some t' =>
                        if negb (forallb endok_item t') then tie
                        else do ch <- spec_chain f ld (n :: visited) t';; Ok (t :: ch)
                    end
           end
  end.

(** The definition of block [n] in template [t], if any. *)
Definition find_def (n : str) (t : template) : option bdef :=
  find (fun b => str_eqb n (b_name b)) (find_blocks t).

(** All definitions of [n] along the chain, most derived first. *)
Definition defs (ch : list template) (n : str) : list bdef :=
  flat_map (fun t => match find_def n t with Some b => [b] | None => [] end) ch.

(** Text of [its] with every block replaced by its most derived definition
    and [Super] by the next less derived one ([sup] = the less derived
    definitions of the block being rendered).  A block tag is never blank;
    with [suppress], a body (of a block, if or for) that holds nothing but
    whitespace text and silent tags contributes nothing ([tblock]). *)
Fixpoint spec_items (fuel : nat) (suppress : bool) (ch : list template) (sup : list bdef)
  (its : list item) : res str :=
  match fuel with
  | O => OutOfFuel
  | S f =>
      match its with
      | [] => Ok []
      | it :: rest =>
          do a <- match it with
                  | Text s => Ok s
                  | Quiet => Ok []
                  | Ext _ => cde
                  | Super =>
                      match sup with
                      | [] => Ok []
                      | d :: sup' => tblock suppress (b_body d) (spec_items f suppress ch sup' (b_body d))
                      end
                  | Blk n req body _ =>
                      match defs ch n with
                      | [] => if req then reqerr else tblock suppress body (spec_items f suppress ch [] body)
                      | d :: sup' =>
                          if b_req d then reqerr
                          else tblock suppress (b_body d) (spec_items f suppress ch sup' (b_body d))
                      end
                  | Wrap _ body => tblock suppress body (spec_items f suppress ch sup body)
                  end;;
          do b <- spec_items f suppress ch sup rest;;
          Ok (a ++ b)
      end
  end.

Definition spec_inherit (fuel : nat) (suppress : bool) (ld : loader) (name : str) : res str :=
  match assoc name ld with
  | None => notfound
  | Some leaf =>
      if negb (forallb endok_item leaf) then tie
      else do ch <- spec_chain fuel ld [] leaf;;
           spec_items fuel suppress ch [] (last ch [])
  end.

(** * Vocabulary of the rejection theorems *)

(** [on_chain ld t u]: [u] is [t] or one of its ancestors (following the
    first extends tag of each template through the loader). *)
Inductive on_chain (ld : loader) : template -> template -> Prop :=
| oc_here t : on_chain ld t t
| oc_parent t n t' u :
    ext_of t = Some n -> assoc n ld = Some t' -> on_chain ld t' u -> on_chain ld t u.

(** The [k]-th ancestor. *)
Fixpoint nth_parent (ld : loader) (t : template) (k : nat) : option template :=
  match k with
  | O => Some t
  | S k' =>
      match ext_of t with
      | None => None
      | Some n => match assoc n ld with None => None | Some t' => nth_parent ld t' k' end
      end
  end.

(** A chain is circular when following extends tags never ends. *)
Definition circular (ld : loader) (t : template) : Prop := forall k, nth_parent ld t k <> None.

(** * Boolean equality for the correspondence runner *)

Definition outcome_eqb (a b : res str) : bool := res_eqb_nopos str_eqb a b.
