(** Kernels/ExtractI18n.v — model of message extraction
    (liquid2/messages.py, as fixed by /verif/proposed_fixes/C15/0001*.patch)
    and of a tracing render that records every catalog call (property C15).

    Transcribed:
      liquid2/messages.py
        extract_from_template (visit, visit_expression)        :199-269
        _extract_from_filters                                  :272-303
        line_number / line_number_factory                      :318-357
      liquid2/builtin/expressions.py
        FilteredExpression.evaluate                            :604-609
        TernaryFilteredExpression.evaluate                     :729-744
        RangeLiteral._make_range                               :278-293 (as of /repo 65d399b)
      children()/expressions()/render_to_output of
        OutputNode, EchoNode, AssignNode, IfNode (+ ConditionalBlockNode),
        ForNode, LiquidNode, BlockNode, CommentNode, ContentNode, TranslateNode.

    Abstract syntax: a template is its source text plus a tree of nodes; every
    node, block and expression carries [pos], the [start] offset of its token,
    from which line numbers are computed exactly as the code does
    ([str.splitlines(keepends=True)]).  Expressions are the three shapes the
    parser builds for output/echo/assign: a filtered expression, a ternary
    (inline if/else) expression, or a plain primitive (conditions, loop
    bounds, tag arguments).  Variables read by expressions are supplied by the
    caller's data; names assigned in the template are never read (so no
    environment is modelled).  Template strings ("${...}") and the other block
    tags are outside the syntax (exercised by the harness oracle only).

    Model file: definitions only. *)
From LQ Require Export Base.Str Kernels.Translate.

Local Open Scope list_scope.

(** * Line numbers *)

(** Code points at which [str.splitlines] ends a line (the engine's line
    convention, shared with exceptions._error_context; the same set as
    [LexUni.linebreak_ranges], see Proofs/ExtractI18n_cross.v). CR LF counts once. *)
Definition is_linebreak (c : N) : bool :=
  existsb (N.eqb c) [10; 11; 12; 13; 28; 29; 30; 133; 8232; 8233]%N.

(** Lengths of the pieces of [source.splitlines(keepends=True)]; [cur] is the
    length of the line being read. *)
Fixpoint line_lengths (s : str) (cur : N) : list N :=
  match s with
  | [] => if N.eqb cur 0 then [] else [cur]
  | c :: s' =>
      if N.eqb c 13 then
        match s' with
        | c2 :: s'' =>
            if N.eqb c2 10 then (cur + 2)%N :: line_lengths s'' 0
            else (cur + 1)%N :: line_lengths s' 0
        | [] => (cur + 1)%N :: line_lengths s' 0
        end
      else if is_linebreak c then (cur + 1)%N :: line_lengths s' 0
      else line_lengths s' (cur + 1)
  end.

(** The loop of [_line_number]: first line whose cumulative length exceeds
    [start]; ValueError when there is none. *)
Fixpoint find_line (lens : list N) (start cum : N) (idx : N) : res N :=
  match lens with
  | [] => PyExc ValueError
  | l :: r =>
      if (start <? cum + l)%N then Ok (idx + 1)%N
      else find_line r start (cum + l)%N (idx + 1)%N
  end.

Definition line_number (src : str) (start : N) : res N :=
  find_line (line_lengths src 0) start 0 0.

(** * Abstract syntax *)

(** A top-level expression of a node ([Node.expressions()]). *)
Inductive texpr :=
| TPlain (pos : N) (p : prim)
| TFiltered (pos : N) (left : prim) (filters : list lfilter)
| TTernary (pos : N) (left : prim) (filters : list lfilter) (cond : prim)
           (alt : option prim) (alt_filters : list lfilter) (tail_filters : list lfilter).

Definition texpr_pos (e : texpr) : N :=
  match e with
  | TPlain p _ | TFiltered p _ _ | TTernary p _ _ _ _ _ _ => p
  end.

Inductive ekind := KOutput | KEcho | KAssign.

Inductive node :=
| NText (pos : N)                         (* ContentNode, RawNode *)
| NComment (pos : N) (text : str)         (* CommentNode: token.text *)
| NExpr (k : ekind) (pos : N) (e : texpr) (* {{ e }}, {% echo e %}, {% assign x = e %} *)
| NIf (pos : N) (cpos : N) (cond : prim) (conseq : block) (alts : altlist)
      (default : optblock)
| NFor (pos : N) (ipos : N) (stop : prim) (body : block) (default : optblock)
      (* {% for i in (1..stop) %} ... {% else %} ... {% endfor %} *)
| NTranslate (pos : N) (args : list targ) (sing : mblock) (plural : option mblock)
| NLiquid (pos : N) (body : block)        (* {% liquid ... %} *)
with block := Block (pos : N) (ns : nodes)
with nodes := NNil | NCons (n : node) (ns : nodes)
with altlist :=
| ANil
| ACons (pos : N) (cpos : N) (cond : prim) (b : block) (rest : altlist)  (* elsif *)
with optblock := NoBlock | SomeBlock (b : block).

Record template := { t_source : str; t_nodes : nodes }.

(** * Extraction *)

(** What the visitor does, in order: every [_line_number(token)] evaluation,
    every translator-comment candidate, every message reported by a
    [message()]/[messages()] call. *)
Inductive ev :=
| EvLine (pos : N)
| EvComment (pos : N) (text : str)
| EvMsg (pos : N) (m : mtext).

Definition opt_list {A} (o : option A) : list A :=
  match o with Some a => [a] | None => [] end.

(** [_extract_from_filters]: only the FIRST filter of the left branch and of
    the alternative branch is asked for a message. *)
Definition first_filter_message (left : prim) (fs : list lfilter) : list mtext :=
  match fs with
  | [] => []
  | f :: _ => opt_list (filter_message f left)
  end.

Definition expr_messages (e : texpr) : list mtext :=
  match e with
  | TPlain _ _ => []
  | TFiltered _ l fs => first_filter_message l fs
  | TTernary _ l fs _ alt afs _ =>
      first_filter_message l fs
      ++ match alt with
         | Some a => first_filter_message a afs
         | None => []
         end
  end.

(** [visit_expression(expr, _line_number(expr.token))]: the children of these
    expressions are primitives and yield nothing. *)
Definition expr_events (e : texpr) : list ev :=
  EvLine (texpr_pos e) :: map (EvMsg (texpr_pos e)) (expr_messages e).

(** Children of a message block: the BlockNode, then ContentNodes and
    OutputNodes (whose expression is a bare variable). *)
Definition mpart_events (p : mpart) : list ev :=
  match p with
  | MText pos _ => [EvLine pos]
  | MVar pos epos _ => [EvLine pos; EvLine epos]
  end.

Definition mblock_events (b : mblock) : list ev :=
  EvLine (mb_pos b) :: flat_map mpart_events (mb_parts b).

Definition targ_events (a : targ) : list ev := [EvLine (fst (snd a))].

(** [visit(node)] (after fix 0012): own line number, comment /
    translatable-tag handling, then the node's expressions, then
    [visit(child)] for every child — source order. *)
Fixpoint visit (n : node) : list ev :=
  match n with
  | NText pos => [EvLine pos]
  | NComment pos text => [EvComment pos text]
  | NExpr _ pos e => EvLine pos :: expr_events e
  | NIf pos cpos c conseq alts default =>
      EvLine pos :: expr_events (TPlain cpos c)
      ++ visit_block conseq ++ visit_alts alts ++ visit_opt default
  | NFor pos ipos s body default =>
      EvLine pos :: expr_events (TPlain ipos s) ++ visit_block body ++ visit_opt default
  | NTranslate pos args sing plural =>
      EvLine pos
      :: map (EvMsg pos) (opt_list (tr_messages args sing plural))
      ++ flat_map targ_events (targ_dict args)
      ++ mblock_events sing
      ++ match plural with Some pb => mblock_events pb | None => [] end
  | NLiquid pos body => EvLine pos :: visit_block body
  end
with visit_block (b : block) : list ev :=
  match b with
  | Block pos ns => EvLine pos :: visit_nodes ns
  end
with visit_nodes (ns : nodes) : list ev :=
  match ns with
  | NNil => []
  | NCons n r => visit n ++ visit_nodes r
  end
with visit_alts (a : altlist) : list ev :=
  match a with
  | ANil => []
  | ACons pos cpos c b rest =>
      (* ConditionalBlockNode: itself, its expression, then its block *)
      EvLine pos :: expr_events (TPlain cpos c) ++ visit_block b ++ visit_alts rest
  end
with visit_opt (o : optblock) : list ev :=
  match o with
  | NoBlock => []
  | SomeBlock b => visit_block b
  end.

(** "Translators:" — DEFAULT_COMMENT_TAGS *)
Definition translators_tag : str :=
  [84; 114; 97; 110; 115; 108; 97; 116; 111; 114; 115; 58]%N.

(** One extracted [MessageTuple]: lineno, (funcname, message), comments. *)
Record mtuple := { mt_line : N; mt_msg : mtext; mt_comments : list str }.

(** [_comments]: list of (lineno, text). *)
Definition cstate := list (N * str).

(** [if _comments and _comments[-1][0] < lineno - 1: _comments.clear()] *)
Definition keep_comments (st : cstate) (lineno : N) : cstate :=
  match rev st with
  | [] => st
  | (cl, _) :: _ => if (Z.of_N cl <? Z.of_N lineno - 1)%Z then [] else st
  end.

Fixpoint run_events (src : str) (evs : list ev) (st : cstate) : res (list mtuple) :=
  match evs with
  | [] => Ok []
  | EvLine pos :: r =>
      do _ <- line_number src pos ;; run_events src r st
  | EvComment pos text :: r =>
      do l <- line_number src pos ;;
      let t := strip text in
      if startswith translators_tag t then run_events src r [(l, t)]
      else run_events src r st
  | EvMsg pos m :: r =>
      do l <- line_number src pos ;;
      let st' := keep_comments st l in
      do rest <- run_events src r [] ;;
      Ok ({| mt_line := l; mt_msg := m; mt_comments := map snd st' |} :: rest)
  end.

Definition template_events (t : template) : list ev := visit_nodes (t_nodes t).

(** [list(extract_from_template(template))] *)
Definition extract (t : template) : res (list mtuple) :=
  match t_nodes t with
  | NNil => Ok []                      (* if not template.nodes: return *)
  | _ => run_events (t_source t) (template_events t) []
  end.

(** * Tracing render *)

(** A catalog call with the position of the originating tag / top-level
    expression and whether the site's message operands are string literals. *)
Record tcall := { tc_call : ccall; tc_pos : N; tc_lit : bool }.

Definition trace := list tcall.

(** Outcome of rendering: the calls made so far and whether rendering went on. *)
Definition rout := (trace * res unit)%type.

Definition r_ok : rout := ([], Ok tt).

Definition r_seq (a : rout) (b : rout) : rout :=
  match snd a with
  | Ok _ => (fst a ++ fst b, snd b)
  | _ => a
  end.

Definition res_unit {A} (r : res A) : res unit :=
  match r with
  | Ok _ => Ok tt
  | LErr e q => LErr e q
  | PyExc k => PyExc k
  | OutOfFuel => OutOfFuel
  end.

Section Render.
Variable pyint : str -> option Z.
Variable d : data.

(** [for f in filters: rv = f.evaluate(rv, context)].  [left] is the text of
    the value flowing in ([None] once a filter has produced it); [lit] says
    whether that value is still the string literal written in the source. *)
Fixpoint apply_filters (pos : N) (lit : bool) (left : option str) (fs : list lfilter) : rout :=
  match fs with
  | [] => r_ok
  | f :: r =>
      match apply_filter pyint d left f with
      | Ok None => apply_filters pos false None r
      | Ok (Some c) =>
          r_seq ([{| tc_call := c; tc_pos := pos; tc_lit := lit && operands_literal f |}], Ok tt)
                (apply_filters pos false None r)
      | e => ([], res_unit e)
      end
  end.

Definition eval_branch (pos : N) (p : prim) (fs : list lfilter) : rout :=
  apply_filters pos (match p with PStr _ => true | _ => false end)
                (tls (eval_prim d p)) fs.

Definition eval_texpr (e : texpr) : rout :=
  match e with
  | TPlain _ _ => r_ok
  | TFiltered pos l fs => eval_branch pos l fs
  | TTernary pos l fs c alt afs tfs =>
      let first :=
        if liquid_truthy (eval_prim d c) then eval_branch pos l fs
        else match alt with
             | Some a => eval_branch pos a afs
             | None => r_ok
             end in
      (* tail filters apply to whatever the branch produced: never a literal *)
      r_seq first (apply_filters pos false None tfs)
  end.

(** [RangeLiteral._make_range(1, stop)]: number of iterations. A bound that
    [to_int] rejects (ValueError, TypeError, OverflowError) counts as 0. *)
Definition range_len (v : value) : nat :=
  match to_int pyint v with
  | Ok z => Z.to_nat z
  | _ => O
  end.

Fixpoint repeat_rout (n : nat) (r : rout) : rout :=
  match n with
  | O => r_ok
  | S n' => r_seq r (repeat_rout n' r)
  end.

Fixpoint render_node (n : node) {struct n} : rout :=
  match n with
  | NText _ | NComment _ _ => r_ok
  | NExpr _ _ e => eval_texpr e
  | NIf _ _ c conseq alts default =>
      if liquid_truthy (eval_prim d c) then render_block conseq
      else match render_alts alts with
           | Some r => r
           | None => render_opt default
           end
  | NFor _ _ s body default =>
      match range_len (eval_prim d s) with
      | O => render_opt default
      | k => repeat_rout k (render_block body)
      end
  | NTranslate pos args sing plural =>
      match mb_parts sing, plural with
      | [], None => r_ok      (* no message: the catalog is not consulted (fix 0010) *)
      | _, _ =>
          match tr_call pyint d args sing plural with
          | Ok c => ([{| tc_call := c; tc_pos := pos; tc_lit := tr_literal args |}], Ok tt)
          | e => ([], res_unit e)
          end
      end
  | NLiquid _ body => render_block body
  end
with render_block (b : block) {struct b} : rout :=
  match b with Block _ ns => render_nodes ns end
with render_nodes (ns : nodes) {struct ns} : rout :=
  match ns with
  | NNil => r_ok
  | NCons n r => r_seq (render_node n) (render_nodes r)
  end
with render_alts (a : altlist) {struct a} : option rout :=
  (* the first elsif whose condition holds; None: fall through to else *)
  match a with
  | ANil => None
  | ACons _ _ c b rest =>
      if liquid_truthy (eval_prim d c) then Some (render_block b)
      else render_alts rest
  end
with render_opt (o : optblock) {struct o} : rout :=
  match o with
  | NoBlock => r_ok
  | SomeBlock b => render_block b
  end.

Definition render (t : template) : rout := render_nodes (t_nodes t).

End Render.

(** * Well-formed positions: every token offset lies inside the source. *)

Definition ev_pos (e : ev) : N :=
  match e with EvLine p | EvComment p _ | EvMsg p _ => p end.

Definition positions_in_source (t : template) : Prop :=
  Forall (fun e => (ev_pos e < N.of_nat (length (t_source t)))%N) (template_events t).

(** * Boolean equalities for the correspondence runner *)

Definition mtuple_eqb (a b : mtuple) : bool :=
  N.eqb (mt_line a) (mt_line b) && mtext_eqb (mt_msg a) (mt_msg b)
  && list_eqb str_eqb (mt_comments a) (mt_comments b).

Definition extract_eqb (a b : res (list mtuple)) : bool :=
  res_eqb_nopos (list_eqb mtuple_eqb) a b.

Definition tcall_matches (model impl : tcall) : bool :=
  ccall_matches (tc_call model) (tc_call impl)
  && N.eqb (tc_pos model) (tc_pos impl)
  && Bool.eqb (tc_lit model) (tc_lit impl).

Definition rout_matches (model impl : rout) : bool :=
  list_eqb tcall_matches (fst model) (fst impl)
  && res_eqb_nopos (fun _ _ => true) (snd model) (snd impl).

(** [pyint] as a finite table (CPython's answers for the strings of a case). *)
Definition pyint_of (tbl : list (str * option Z)) (s : str) : option Z :=
  match assoc s tbl with Some o => o | None => None end.
