(** Kernels/PathResolve.v — model of template-name resolution in the file-system
    and package loaders (C13).

    Transcribed from (the tree with the four C13 [fix:] commits of
    /verif/proposed_fixes/C13 applied; line numbers as of the first three):

      liquid2/builtin/loaders/file_system_loader.py:45-75   FileSystemLoader.resolve_path
      liquid2/builtin/loaders/file_system_loader.py:77-96   _read, get_source (get_source_async
                                                            runs the same two functions in an executor)
      liquid2/builtin/loaders/package_loader.py:53-79       PackageLoader._resolve_path
      liquid2/builtin/loaders/package_loader.py:81-93       get_source
      liquid2/builtin/loaders/choice_loader.py:29-43        ChoiceLoader.get_source
      liquid2/builtin/loaders/caching_file_system_loader.py CachingFileSystemLoader = FileSystemLoader
                                                            behind the cache of C14

    and from CPython 3.12 pathlib / posixpath (POSIX flavour), which is
    MODELLED, not verified: posixpath.splitroot, PurePath._parse_path, .name,
    .suffix, .with_suffix, .parts, .anchor, .__str__, .joinpath.

    A path is kept in pathlib's parsed form: the root ("", "/" or "//") and the
    tail (list of components).  The file system is any function from parsed
    paths to the content of the REGULAR FILE found there ([None]: no such file,
    a directory, a name the OS rejects ...); contents are identified by a
    number.  Model file: definitions only; proofs in Proofs/PathResolve_proofs.v. *)
From LQ Require Export Base.Str.

Definition slash : N := 47%N.
Definition dot : N := 46%N.
Definition dotdot : str := [dot; dot].          (* os.path.pardir *)

(** * pathlib (POSIX flavour) *)

(** [PurePath.root]: '' | '/' | '//'. *)
Inductive anchor := Rel | Root1 | Root2.

Record ppath := mkpath { p_anchor : anchor; p_segs : list str }.

(** [posixpath.splitroot(p)] (drive is always ''):
      if p[:1] != sep: return '', '', p
      elif p[1:2] != sep or p[2:3] == sep: return '', sep, p[1:]
      else: return '', p[:2], p[2:]                                     *)
Definition splitroot (p : str) : anchor * str :=
  match p with
  | c0 :: t0 =>
      if N.eqb c0 slash then
        match t0 with
        | c1 :: t1 =>
            if N.eqb c1 slash then
              match t1 with
              | c2 :: _ => if N.eqb c2 slash then (Root1, t0) else (Root2, t1)
              | [] => (Root2, t1)
              end
            else (Root1, t0)
        | [] => (Root1, t0)
        end
      else (Rel, p)
  | [] => (Rel, p)
  end.

(** [s.split(sep)]; [cur] is the component being read, reversed. *)
Fixpoint split_on (sep : N) (s : str) (cur : str) : list str :=
  match s with
  | [] => [rev cur]
  | c :: s' =>
      if N.eqb c sep then rev cur :: split_on sep s' [] else split_on sep s' (c :: cur)
  end.

Definition split_slash (s : str) : list str := split_on slash s [].

(** [x and x != '.'] *)
Definition keep_seg (x : str) : bool :=
  match x with [] => false | _ => negb (str_eqb x [dot]) end.

(** [PurePath._parse_path(path)]:
      if not path: return '', '', []
      drv, root, rel = splitroot(path)
      parsed = [x for x in rel.split(sep) if x and x != '.']            *)
Definition parse_path (s : str) : ppath :=
  match s with
  | [] => mkpath Rel []
  | _ => let '(a, rel) := splitroot s in mkpath a (filter keep_seg (split_slash rel))
  end.

(** [PurePath.name]: tail[-1] if tail else ''. *)
Definition p_name (p : ppath) : str := last (p_segs p) [].

(** [str.rfind(c)] as an option (None = -1). *)
Fixpoint rfind_from (c : N) (s : str) (i : nat) (acc : option nat) : option nat :=
  match s with
  | [] => acc
  | x :: s' => rfind_from c s' (S i) (if N.eqb x c then Some i else acc)
  end.
Definition rfind (c : N) (s : str) : option nat := rfind_from c s 0 None.

(** [PurePath.suffix]:
      i = name.rfind('.'); return name[i:] if 0 < i < len(name) - 1 else ''  *)
Definition name_suffix (name : str) : str :=
  match rfind dot name with
  | Some i => if Nat.ltb 0 i && Nat.ltb i (length name - 1) then skipn i name else []
  | None => []
  end.
Definition p_suffix (p : ppath) : str := name_suffix (p_name p).

Fixpoint mem_char (c : N) (s : str) : bool :=
  match s with [] => false | x :: s' => N.eqb x c || mem_char c s' end.

(** [PurePath.with_suffix(suffix)]:
      if sep in suffix: raise ValueError
      if suffix and not suffix.startswith('.') or suffix == '.': raise ValueError
      name = self.name
      if not name: raise ValueError("... has an empty name")
      old_suffix = self.suffix
      name = name + suffix if not old_suffix else name[:-len(old_suffix)] + suffix
      return _from_parsed_parts(drive, root, tail[:-1] + [name])           *)
Definition valid_suffixb (suffix : str) : bool :=
  negb (mem_char slash suffix)
  && match suffix with
     | [] => true
     | c :: t => N.eqb c dot && match t with [] => false | _ => true end
     end.

Definition with_suffix (p : ppath) (suffix : str) : res ppath :=
  if negb (valid_suffixb suffix) then PyExc ValueError
  else
    let name := p_name p in
    match name with
    | [] => PyExc ValueError
    | _ =>
        let old := p_suffix p in
        let name' := match old with
                     | [] => name ++ suffix
                     | _ => firstn (length name - length old) name ++ suffix
                     end in
        Ok (mkpath (p_anchor p) (removelast (p_segs p) ++ [name']))
    end.

(** [PurePath.parts]: (root,) + tail if root else tail. *)
Definition p_parts (p : ppath) : list str :=
  match p_anchor p with
  | Rel => p_segs p
  | Root1 => [slash] :: p_segs p
  | Root2 => [slash; slash] :: p_segs p
  end.

(** [PurePath.anchor] is non-empty. *)
Definition anchored (p : ppath) : bool :=
  match p_anchor p with Rel => false | _ => true end.

(** ['/'.join(tail)] *)
Fixpoint join_segs (segs : list str) : str :=
  match segs with
  | [] => []
  | [x] => x
  | x :: rest => x ++ slash :: join_segs rest
  end.

(** [str(path)]: root + '/'.join(tail), or '.' when that is empty. *)
Definition format_path (p : ppath) : str :=
  let s := match p_anchor p with
           | Rel => join_segs (p_segs p)
           | Root1 => slash :: join_segs (p_segs p)
           | Root2 => slash :: slash :: join_segs (p_segs p)
           end in
  match s with [] => [dot] | _ => s end.

(** [a.joinpath(b)] = [Path(a, b)] = parse(posixpath.join(str a, str b)):
    an anchored right operand DISCARDS the left one; otherwise the components
    are concatenated under the left operand's root. *)
Definition joinpath (a b : ppath) : ppath :=
  match p_anchor b with
  | Rel => mkpath (p_anchor a) (p_segs a ++ p_segs b)
  | _ => b
  end.

(** * The file system *)

Definition filesys := ppath -> option N.

(** The probe of a candidate path,
      try: source_path.is_file()  except OSError: <not here>
    [Path.is_file()] itself is False for ENOENT, ENOTDIR, EBADF, ELOOP, an
    embedded NUL and unencodable names; every other OSError it lets through
    (ENAMETOOLONG for a component over NAME_MAX or a path over PATH_MAX, EACCES
    for a directory that may not be searched) is caught by the loaders (fix 0004)
    and also means "no regular file here": [fs p = None]. *)
Definition is_file (fs : filesys) (p : ppath) : bool :=
  match fs p with Some _ => true | None => false end.

Definition not_found {A} : res A := LErr TemplateNotFoundError None.

(** [os.path.pardir in template_path.parts] *)
Definition has_pardir (p : ppath) : bool := mem_str dotdot (p_parts p).

(** [for path in search_path: source_path = path.joinpath(tp);
     try: if source_path.is_file(): return source_path
     except OSError: continue] ... raise TemplateNotFoundError *)
Fixpoint first_file (fs : filesys) (roots : list ppath) (join : ppath -> ppath) : res ppath :=
  match roots with
  | [] => not_found
  | r :: roots' => if is_file fs (join r) then Ok (join r) else first_file fs roots' join
  end.

(** * FileSystemLoader.resolve_path (file_system_loader.py:45-75)

      template_path = Path(template_name)
      if template_path.anchor or os.path.pardir in template_path.parts:
          raise TemplateNotFoundError(template_name)
      if not template_path.name:
          raise TemplateNotFoundError(template_name)
      if self.ext and not template_path.suffix:
          template_path = template_path.with_suffix(self.ext)
      for path in self.search_path: ... joinpath(template_path) ... is_file()  *)
Definition fsl_resolve (fs : filesys) (roots : list ppath) (ext : option str)
  (name : str) : res ppath :=
  let tp := parse_path name in
  if anchored tp || has_pardir tp then not_found
  else match p_name tp with
  | [] => not_found
  | _ =>
    do tp' <- match ext with
              | Some ((_ :: _) as e) =>
                  match p_suffix tp with [] => with_suffix tp e | _ => Ok tp end
              | _ => Ok tp           (* ext is None or '' *)
              end;;
    first_file fs roots (fun r => joinpath r tp')
  end.

(** [_read]: open(...).read(); a file that vanished after is_file() would be
    FileNotFoundError (an OSError). *)
Definition read_file (fs : filesys) (p : ppath) : res (ppath * N) :=
  match fs p with Some c => Ok (p, c) | None => PyExc OSError end.

Definition fsl_get_source (fs : filesys) (roots : list ppath) (ext : option str)
  (name : str) : res (ppath * N) :=
  do p <- fsl_resolve fs roots ext name;; read_file fs p.

(** * PackageLoader._resolve_path (package_loader.py:53-79)

      template_path = Path(template_name)
      if template_path.anchor or os.path.pardir in template_path.parts: raise TemplateNotFoundError
      if not template_path.name: raise TemplateNotFoundError
      if not template_path.suffix:
          template_path = template_path.with_suffix(self.ext)
      for path in self.paths:
          source_path = path.joinpath(str(template_path))      # a string: parsed again
          if source_path.is_file(): return source_path
    [self.paths] are [files(package).joinpath(package_path)]: PosixPath objects
    for a package that lives in a directory (zip imports are outside the model). *)
Definition pkg_resolve (fs : filesys) (roots : list ppath) (ext : str)
  (name : str) : res ppath :=
  let tp := parse_path name in
  if anchored tp || has_pardir tp then not_found
  else match p_name tp with
  | [] => not_found
  | _ =>
    do tp' <- match p_suffix tp with [] => with_suffix tp ext | _ => Ok tp end;;
    first_file fs roots (fun r => joinpath r (parse_path (format_path tp')))
  end.

Definition pkg_get_source (fs : filesys) (roots : list ppath) (ext : str)
  (name : str) : res (ppath * N) :=
  do p <- pkg_resolve fs roots ext name;; read_file fs p.

(** * ChoiceLoader.get_source (choice_loader.py:29-43)

      for loader in self.loaders:
          try: return loader.get_source(env, template_name, ...)
          except TemplateNotFoundError: pass
      raise TemplateNotFoundError(template_name)                           *)
Inductive loader :=
| FSL (roots : list ppath) (ext : option str)
| PKG (roots : list ppath) (ext : str)
| Choice (members : list loader).

Section FirstOk.
  Context {A B : Type} (f : A -> res B).
  Fixpoint first_ok (ls : list A) : res B :=
    match ls with
    | [] => not_found
    | l :: ls' =>
        match f l with
        | LErr TemplateNotFoundError _ => first_ok ls'
        | r => r                     (* a result, or any other exception propagates *)
        end
    end.
End FirstOk.

Fixpoint get_source (fs : filesys) (l : loader) (name : str) : res (ppath * N) :=
  match l with
  | FSL roots ext => fsl_get_source fs roots ext name
  | PKG roots ext => pkg_get_source fs roots ext name
  | Choice ls => first_ok (fun m => get_source fs m name) ls
  end.

(** The configured search directories of a loader. *)
Fixpoint loader_roots (l : loader) : list ppath :=
  match l with
  | FSL roots _ => roots
  | PKG roots _ => roots
  | Choice ls => flat_map loader_roots ls
  end.

(** [Environment.get_template] with valid default extensions only ('' or
    '.x...' without a separator; anything else makes with_suffix raise
    ValueError, a configuration error). *)
Fixpoint ext_okb (l : loader) : bool :=
  match l with
  | FSL _ None => true
  | FSL _ (Some e) => valid_suffixb e
  | PKG _ e => valid_suffixb e
  | Choice ls => forallb ext_okb ls
  end.

(** * Vocabulary of the C13 theorems *)

(** An ordinary path component: not empty, not '.', not '..', no separator. *)
Definition plain_seg (s : str) : Prop :=
  s <> [] /\ s <> [dot] /\ s <> dotdot /\ ~ In slash s.

(** [p] is [r/c1/.../cn] with n >= 1 ordinary components: [r] is a proper
    component-wise prefix of [p] and nothing below [r] can climb back up. *)
Definition under (r p : ppath) : Prop :=
  exists rest, rest <> [] /\ Forall plain_seg rest /\
               p = mkpath (p_anchor r) (p_segs r ++ rest).

(** The name, as a string, begins with '/' or has a '/'-separated component '..'. *)
Definition escaping (name : str) : Prop :=
  (exists t, name = slash :: t) \/ In dotdot (split_slash name).

(** * Helpers for the correspondence runner *)

Definition anchor_eqb (a b : anchor) : bool :=
  match a, b with Rel, Rel | Root1, Root1 | Root2, Root2 => true | _, _ => false end.

Definition ppath_eqb (a b : ppath) : bool :=
  anchor_eqb (p_anchor a) (p_anchor b) && list_eqb str_eqb (p_segs a) (p_segs b).

(** A file system given by the list of its regular files. *)
Fixpoint fs_of_list (files : list (ppath * N)) (p : ppath) : option N :=
  match files with
  | [] => None
  | (q, c) :: files' => if ppath_eqb p q then Some c else fs_of_list files' p
  end.

(** What the harness observes of one load: found (content, index of the path
    in a table of paths) / TemplateNotFoundError / another exception. *)
Inductive expect := EFound (content : N) (path_ix : nat) | ENotFound | EExc (k : pykind).

Definition outcome_matches (paths : list ppath) (r : res (ppath * N)) (e : expect) : bool :=
  match r, e with
  | Ok (p, c), EFound c' ix => N.eqb c c' && ppath_eqb p (nth ix paths (mkpath Rel []))
  | LErr TemplateNotFoundError _, ENotFound => true
  | PyExc k, EExc k' => pykind_eqb k k'
  | _, _ => false
  end.

Fixpoint all_match (fs : filesys) (paths : list ppath) (ls : list loader) (name : str)
  (es : list expect) : bool :=
  match ls, es with
  | [], [] => true
  | l :: ls', e :: es' =>
      outcome_matches paths (get_source fs l name) e && all_match fs paths ls' name es'
  | _, _ => false
  end.
