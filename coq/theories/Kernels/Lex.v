(** Kernels/Lex.v — the Liquid lexer ([liquid2/lexer.py], class [Lexer]) as a
    total function on [str].

    MODEL file: definitions only, transcribed function by function from the
    Python (line numbers refer to liquid2/lexer.py with the proposed fixes
    of /verif/proposed_fixes/C17 and /verif/proposed_fixes/C02 applied).

    - Every regular expression is an explicit matcher on the remaining input
      ([rest pos = skipn pos s]): greedy classes are [take_while], a lazy
      [.*?X] is [find_first X] (the first offset at which the continuation
      matches), the back-reference [(?P=HASHES)] is a counted run of [#]
      tried from the longest run downwards, [\s] [\w] come from
      Kernels/LexUni.v (CPython's tables), [\b] is a test on the next
      character.
    - The scan pointers [start], [pos], [markup_start], [line_start] and the
      flag [in_range] are a record [st] threaded through every function and
      updated exactly where the Python updates them.  [self.wc],
      [self.tag_name], [self.expression], [self.line_statements],
      [self.line_space] and [self.path_stack] are empty whenever control is in
      [lex_markup] (each emission resets them; fix C17/0003 makes this true of
      [path_stack]) and are therefore local accumulators of the state
      functions.
    - Python exceptions are values: [LErr LiquidSyntaxError (Some index)] for
      an [ErrorToken] with that [index], [LErr LiquidSyntaxError None] for
      [backup()]'s error without a token, [PyExc] for the bare [Exception]
      of [ignore_whitespace] and for [AssertionError]s.
    - Loops that are not structurally recursive take [nat] fuel, used as a
      bound on the *depth* of the call tree: every loop iteration and every
      nested call passes [fuel - 1] down.  [Proofs/Lex_proofs.v] proves that
      [fuel_lex s] always suffices. *)
From LQ Require Import Base.Str Kernels.LexUni.

(** * Tokens ([liquid2/token.py]) *)

Inductive wc := WDefault | WMinus | WPlus | WTilde.

(** [TokenType] of the plain expression tokens ([Token]). *)
Inductive ekind :=
| KWord | KTrue | KFalse | KAnd | KOr | KIn | KNot | KContains | KNull
| KIf | KElse | KWith | KRequired | KAs | KFor
| KFloat | KInt
| KGe | KLe | KEq | KNe | KGt | KLt | KDoubleDot | KDoublePipe | KAssign
| KLParen | KRParen | KColon | KComma | KPipe | KExclaim | KQuestion | KArrow
| KSingleQuoteString | KDoubleQuoteString.

(** Expression tokens.  One inductive type with nested lists:
    [ESegInt]/[ESegStr] occur only as elements of an [EPath]'s segment list
    (Python: [int]/[str] entries of [PathToken.path]; a nested [PathToken] is
    an [EPath] element), [EOut] only as an element of an [ETemplate]'s part
    list ([OutputToken] inside [TemplateStringToken.template]). *)
Inductive etok :=
| ETok (k : ekind) (value : str) (index : nat)         (* Token *)
| ESegInt (z : Z)
| ESegStr (v : str)
| EPath (segs : list etok) (start : nat) (stop : Z)    (* PathToken *)
| ETemplate (dq : bool) (parts : list etok) (start stop : nat) (* TemplateStringToken *)
| EOut (start stop : nat) (expr : list etok)           (* OutputToken inside a template string *)
| ERange (a b : etok) (start stop : nat).              (* RangeToken *)

Inductive ccls := CComment | CBlock | CInline.

(** Line statements of a [LinesToken]. *)
Inductive ltok :=
| LTag (start stop : nat) (name : str) (expr : list etok)               (* TagToken, wc = WC_DEFAULT *)
| LComment (cls : ccls) (start stop : nat) (text : str) (hashes : str). (* CommentToken / BlockCommentToken *)

(** Top-level markup tokens. *)
Inductive mtok :=
| MContent (start stop : nat) (text : str)
| MRaw (start stop : nat) (w0 w1 w2 w3 : wc) (text : str)
| MComment (cls : ccls) (start stop : nat) (w0 w1 : wc) (text : str) (hashes : str)
| MOutput (start stop : nat) (w0 w1 : wc) (expr : list etok)
| MTag (start stop : nat) (w0 w1 : wc) (name : str) (expr : list etok)
| MLines (start stop : nat) (w0 w1 : wc) (name : str) (stmts : list ltok) (ws : list str).

Definition mtok_start (m : mtok) : nat :=
  match m with
  | MContent a _ _ | MRaw a _ _ _ _ _ _ | MComment _ a _ _ _ _ _
  | MOutput a _ _ _ _ | MTag a _ _ _ _ _ | MLines a _ _ _ _ _ _ => a
  end.
Definition mtok_stop (m : mtok) : nat :=
  match m with
  | MContent _ b _ | MRaw _ b _ _ _ _ _ | MComment _ _ b _ _ _ _
  | MOutput _ b _ _ _ | MTag _ b _ _ _ _ | MLines _ b _ _ _ _ _ => b
  end.

(** [token.start] / [token.stop] of expression tokens ([Token.stop] is
    [index + len(value)]). *)
Definition etok_start (e : etok) : nat :=
  match e with
  | ETok _ _ i => i
  | EPath _ a _ | ETemplate _ _ a _ | EOut a _ _ | ERange _ _ a _ => a
  | ESegInt _ | ESegStr _ => 0
  end.
Definition etok_stop (e : etok) : Z :=
  match e with
  | ETok _ v i => Z.of_nat (i + length v)
  | EPath _ _ b => b
  | ETemplate _ _ _ b | EOut _ b _ | ERange _ _ _ b => Z.of_nat b
  | ESegInt _ | ESegStr _ => 0%Z
  end.

(** * Characters *)

Local Open Scope N_scope.

Definition wc_char (c : N) : option wc :=
  if c =? 45 then Some WMinus            (* - *)
  else if c =? 43 then Some WPlus        (* + *)
  else if c =? 126 then Some WTilde      (* ~ *)
  else None.

Definition is_digit (c : N) : bool := (48 <=? c) && (c <=? 57).
Definition is_lower (c : N) : bool := (97 <=? c) && (c <=? 122).
Definition is_upper (c : N) : bool := (65 <=? c) && (c <=? 90).
(** [[a-z_0-9]] *)
Definition is_tagname_char (c : N) : bool := is_lower c || (c =? 95) || is_digit c.
(** [[\u0080-￿a-zA-Z_]] and [[\u0080-￿a-zA-Z0-9_-]] *)
Definition is_word_start (c : N) : bool :=
  ((128 <=? c) && (c <=? 65535)) || is_lower c || is_upper c || (c =? 95).
Definition is_word_char (c : N) : bool := is_word_start c || is_digit c || (c =? 45).
(** [RE_WHITESPACE] [[ \n\r\t]] and [RE_LINE_SPACE] [[ \t]] *)
Definition is_ws (c : N) : bool := (c =? 32) || (c =? 10) || (c =? 13) || (c =? 9).
Definition is_line_space (c : N) : bool := (c =? 32) || (c =? 9).
(** [ESCAPES], lexer.py:70 *)
Definition is_escape (c : N) : bool :=
  (c =? 98) || (c =? 102) || (c =? 110) || (c =? 114) || (c =? 116) || (c =? 117)
  || (c =? 47) || (c =? 92) || (c =? 36).
Definition is_e (c : N) : bool := (c =? 101) || (c =? 69).

Local Close Scope N_scope.

Definition L_raw : str := [114; 97; 119]%N.
Definition L_endraw : str := [101; 110; 100; 114; 97; 119]%N.
Definition L_comment : str := [99; 111; 109; 109; 101; 110; 116]%N.
Definition L_endcomment : str := [101; 110; 100; 99; 111; 109; 109; 101; 110; 116]%N.
Definition L_liquid : str := [108; 105; 113; 117; 105; 100]%N.
Definition L_pct_rbrace : str := [37; 125]%N.      (* %} *)
Definition L_rbrace2 : str := [125; 125]%N.        (* }} *)
Definition L_hash : str := [35]%N.

(** * Matchers on the remaining input *)

Notation "'dopt' x <- r ;; k" := (match r with Some x => k | None => None end)
  (at level 200, x pattern, r at level 100, k at level 200, right associativity).

(** [lit] is a prefix of [r]: the remainder after it. *)
Fixpoint starts (lit r : str) : option str :=
  match lit, r with
  | [], _ => Some r
  | a :: lit', b :: r' => if N.eqb a b then starts lit' r' else None
  | _ :: _, [] => None
  end.

(** Greedy [p*]: how many characters, and the remainder. *)
Fixpoint take_while (p : N -> bool) (r : str) : nat * str :=
  match r with
  | c :: r' => if p c then let '(n, r'') := take_while p r' in (S n, r'') else (0, r)
  | [] => (0, [])
  end.

(** [[\-+~]?] *)
Definition take_wc (r : str) : wc * nat * str :=
  match r with
  | c :: r' => match wc_char c with Some w => (w, 1, r') | None => (WDefault, 0, r) end
  | [] => (WDefault, 0, r)
  end.

(** Lazy [.*?] (DOTALL) followed by [P]: the first offset at which [P] matches. *)
Fixpoint find_first {A} (P : str -> option A) (r : str) : option (nat * A) :=
  match P r with
  | Some a => Some (0, a)
  | None =>
      match r with
      | [] => None
      | _ :: r' => match find_first P r' with Some (k, a) => Some (S k, a) | None => None end
      end
  end.

(** [[\-+~]?lit] with the marker captured: [RE_TAG_END] is [wc_end "%}"],
    [RE_OUTPUT_END] is [wc_end "}}"].  (No backtracking case: [lit] never
    starts with a marker character.) *)
Definition wc_end (lit : str) (r : str) : option (wc * nat) :=
  let '(w, n, r1) := take_wc r in
  dopt _ <- starts lit r1 ;; Some (w, n + length lit).

(** [\{%[\-+~]?\s*] — marker, length consumed, remainder. [\s] is Unicode. *)
Definition tag_open (r : str) : option (wc * nat * str) :=
  dopt r1 <- starts [123; 37]%N r ;;
  let '(w, n1, r2) := take_wc r1 in
  let '(n2, r3) := take_while is_space r2 in
  Some (w, 2 + n1 + n2, r3).

(** [\s*[\-+~]?%\}] *)
Definition tag_close (r : str) : option (wc * nat) :=
  let '(n1, r1) := take_while is_space r in
  dopt (w, n2) <- wc_end L_pct_rbrace r1 ;; Some (w, n1 + n2).

(** [\{%[\-+~]?\s*NAME\s*[\-+~]?%\}] for NAME = raw / endraw. *)
Definition raw_delim (name : str) (r : str) : option (wc * wc * nat) :=
  dopt (w0, n0, r1) <- tag_open r ;;
  dopt r2 <- starts name r1 ;;
  dopt (w1, n1) <- tag_close r2 ;;
  Some (w0, w1, n0 + length name + n1).

(** [\b] after a word character: the next character is not a word character. *)
Definition word_boundary_after (r : str) : bool :=
  match r with c :: _ => negb (is_word c) | [] => true end.

(** [(?P=HASHES)\}] preceded by [[\-+~]?]: a closing of a [{#…#}] comment with
    [n] hashes at the head of [r]. *)
Definition hashes_then_brace (n : nat) (r : str) : bool :=
  match starts (repeat 35%N n) r with
  | Some (c :: _) => N.eqb c 125
  | _ => false
  end.
Definition comment_close (n : nat) (r : str) : option (wc * nat) :=
  let '(w, k, r1) := take_wc r in
  if hashes_then_brace n r1 then Some (w, k + n + 1)
  else if hashes_then_brace n r then Some (WDefault, n + 1)
  else None.

(** The rest of COMMENT once [{] and [n] hashes are consumed:
    [[\-+~]?(.*?)[\-+~]?#{n}\}].  Result: markers, offset and length of the
    text, total length (all relative to [r]). *)
Definition comment_body (n : nat) (r : str) : option (wc * wc * nat * nat * nat) :=
  let attempt (w0 : wc) (n0 : nat) (r1 : str) :=
    dopt (k, (w1, m)) <- find_first (comment_close n) r1 ;; Some (w0, w1, n0, k, n0 + k + m) in
  let '(w0, n0, r1) := take_wc r in
  match attempt w0 n0 r1 with
  | Some x => Some x
  | None => if Nat.eqb n0 0 then None else attempt WDefault 0 r
  end.

(** [#+] is greedy and backtracks: try the longest run of hashes first. *)
Fixpoint comment_try (n : nat) (r : str) : option (nat * (wc * wc * nat * nat * nat)) :=
  match n with
  | O => None
  | S n' =>
      match comment_body n (skipn n r) with
      | Some x => Some (n, x)
      | None => comment_try n' r
      end
  end.

(** The lookahead of CONTENT (with fix C17/0004: [\Z], not [$]):
    [(?=(\{\{|\{%|\{#+|\Z))]. *)
Definition content_stop (r : str) : bool :=
  match r with
  | [] => true
  | a :: c :: _ => N.eqb a 123 && (N.eqb c 123 || N.eqb c 37 || N.eqb c 35)
  | _ => false
  end.
Fixpoint content_more (r : str) : nat :=
  if content_stop r then 0 else match r with [] => 0 | _ :: r' => S (content_more r') end.

(** What [MARKUP_RULES.match] found. All numbers are relative to [pos]. *)
Inductive markup :=
| MkRaw (w0 w1 w2 w3 : wc) (toff tlen len : nat)
| MkCommentTag (w : wc) (len : nat)
| MkOutput (w : wc) (len : nat)
| MkTag (w : wc) (noff nlen : nat)            (* the match ends with the name *)
| MkComment (hashes : nat) (w0 w1 : wc) (toff tlen len : nat)
| MkInline (w0 w1 : wc) (toff tlen len : nat)
| MkContent (len : nat).

Definition match_raw (r : str) : option markup :=
  dopt (w0, w1, n) <- raw_delim L_raw r ;;
  dopt (k, (w2, w3, m)) <- find_first (raw_delim L_endraw) (skipn n r) ;;
  Some (MkRaw w0 w1 w2 w3 n k (n + k + m)).

Definition match_comment_tag (r : str) : option markup :=
  dopt (w, n, r1) <- tag_open r ;;
  dopt r2 <- starts L_comment r1 ;;
  if word_boundary_after r2 then
    dopt (k, _) <- find_first (starts L_pct_rbrace) r2 ;;
    Some (MkCommentTag w (n + 7 + k + 2))
  else None.

Definition match_output (r : str) : option markup :=
  dopt r1 <- starts [123; 123]%N r ;;
  let '(w, n1, r2) := take_wc r1 in
  let '(n2, _) := take_while is_space r2 in
  Some (MkOutput w (2 + n1 + n2)).

Definition match_tag (r : str) : option markup :=
  dopt (w, n, r1) <- tag_open r ;;
  match r1 with
  | c :: r2 =>
      if is_lower c then
        let '(m, _) := take_while is_tagname_char r2 in Some (MkTag w n (S m))
      else None
  | [] => None
  end.

Definition match_comment (r : str) : option markup :=
  match r with
  | c :: r1 =>
      if N.eqb c 123 then
        let '(h, _) := take_while (N.eqb 35) r1 in
        dopt (n, (w0, w1, toff, tlen, m)) <- comment_try h r1 ;;
        Some (MkComment n w0 w1 (1 + n + toff) tlen (1 + n + m))
      else None
  | [] => None
  end.

Definition match_inline_comment (r : str) : option markup :=
  dopt (w0, n, r1) <- tag_open r ;;
  dopt r2 <- starts L_hash r1 ;;
  dopt (k, (w1, m)) <- find_first (wc_end L_pct_rbrace) r2 ;;
  Some (MkInline w0 w1 (n + 1) k (n + 1 + k + m)).

Definition match_content (r : str) : option markup :=
  match r with
  | [] => None
  | _ :: r' => Some (MkContent (S (content_more r')))
  end.

(** [MARKUP_RULES]: the alternatives in the order of the [MARKUP] dict. *)
Definition match_markup (r : str) : option markup :=
  match match_raw r with Some m => Some m | None =>
  match match_comment_tag r with Some m => Some m | None =>
  match match_output r with Some m => Some m | None =>
  match match_tag r with Some m => Some m | None =>
  match match_comment r with Some m => Some m | None =>
  match match_inline_comment r with Some m => Some m | None =>
  match_content r end end end end end end.

(** ** TOKEN_RULES (lexer.py:72-103, 179) *)

Inductive tkind :=
| TSym (k : ekind)       (* a kind in TOKEN_MAP: numbers and symbols *)
| TSingleQuote | TDoubleQuote | TLBracket | TWord.

Definition opt_char (c : N) (r : str) : nat * str :=
  match r with
  | d :: r' => if N.eqb c d then (1, r') else (0, r)
  | [] => (0, r)
  end.

(** [[eE]SIGN[0-9]+] where SIGN is [[+-]?] (mode 0), [-] (mode 1), [\+?] (mode 2):
    length, or 0 when it does not match. *)
Definition exponent (mode : nat) (r : str) : nat :=
  match r with
  | e :: r1 =>
      if is_e e then
        let '(sg, r2) :=
          match mode with
          | 0 => match r1 with
                 | d :: r' => if N.eqb d 43 || N.eqb d 45 then (1, r') else (0, r1)
                 | [] => (0, r1)
                 end
          | 1 => match r1 with
                 | d :: r' => if N.eqb d 45 then (1, r') else (2, r1)   (* 2: required sign missing *)
                 | [] => (2, r1)
                 end
          | _ => opt_char 43 r1
          end in
        if Nat.eqb sg 2 then 0 else
        let '(n, _) := take_while is_digit r2 in
        if Nat.eqb n 0 then 0 else 1 + sg + n
      else 0
  | [] => 0
  end.

(** FLOAT: [-?[0-9]+\.[0-9]+([eE][+-]?[0-9]+)?] | [-?[0-9]+[eE]-[0-9]+] *)
Definition match_float (r : str) : option nat :=
  let '(m, r1) := opt_char 45 r in
  let '(n1, r2) := take_while is_digit r1 in
  if Nat.eqb n1 0 then None else
  let alt_b := let x := exponent 1 r2 in if Nat.eqb x 0 then None else Some (m + n1 + x) in
  match r2 with
  | c :: r3 =>
      if N.eqb c 46 then
        let '(n2, r4) := take_while is_digit r3 in
        if Nat.eqb n2 0 then alt_b else Some (m + n1 + 1 + n2 + exponent 0 r4)
      else alt_b
  | [] => alt_b
  end.

(** INT: [-?[0-9]+([eE]\+?[0-9]+)?] *)
Definition match_int (r : str) : option nat :=
  let '(m, r1) := opt_char 45 r in
  let '(n1, r2) := take_while is_digit r1 in
  if Nat.eqb n1 0 then None else Some (m + n1 + exponent 2 r2).

(** SYMBOLS in dict order. *)
Definition symbols : list (str * tkind) :=
  [ ([61; 62]%N, TSym KArrow);          (* => *)
    ([62; 61]%N, TSym KGe);             (* >= *)
    ([60; 61]%N, TSym KLe);             (* <= *)
    ([61; 61]%N, TSym KEq);             (* == *)
    ([33; 61]%N, TSym KNe);             (* != *)
    ([60; 62]%N, TSym KNe);             (* <>  (LG -> NE) *)
    ([62]%N, TSym KGt);
    ([60]%N, TSym KLt);
    ([46; 46]%N, TSym KDoubleDot);
    ([124; 124]%N, TSym KDoublePipe);
    ([61]%N, TSym KAssign);
    ([40]%N, TSym KLParen);
    ([41]%N, TSym KRParen);
    ([39]%N, TSingleQuote);
    ([34]%N, TDoubleQuote);
    ([58]%N, TSym KColon);
    ([44]%N, TSym KComma);
    ([124]%N, TSym KPipe);
    ([91]%N, TLBracket);
    ([33]%N, TSym KExclaim);
    ([63]%N, TSym KQuestion) ].

Fixpoint match_symbol (l : list (str * tkind)) (r : str) : option (tkind * nat) :=
  match l with
  | [] => None
  | (lit, k) :: l' =>
      match starts lit r with Some _ => Some (k, length lit) | None => match_symbol l' r end
  end.

(** WORD / RE_PROPERTY: length of the match, 0 when none. After the first
    character: word characters, and a hyphen unless it is immediately followed
    by the two characters that close an output or a tag (C18/0004: the hyphen
    of [{{x-}}] is whitespace control, not a part of the name). *)
Fixpoint word_tail (r : str) : nat :=
  match r with
  | c :: r' =>
      if N.eqb c 45 then
        match r' with
        | d :: e :: _ =>
            if (N.eqb d 125 || N.eqb d 37) && N.eqb e 125 then 0 else S (word_tail r')
        | _ => S (word_tail r')
        end
      else if is_word_start c || is_digit c then S (word_tail r') else 0
  | [] => 0
  end.

Definition word_len (r : str) : nat :=
  match r with
  | c :: r' => if is_word_start c then S (word_tail r') else 0
  | [] => 0
  end.

(** RE_INDEX [-?[0-9]+]: length, 0 when none. *)
Definition index_len (r : str) : nat :=
  let '(m, r1) := opt_char 45 r in
  let n := fst (take_while is_digit r1) in
  if Nat.eqb n 0 then 0 else m + n.

(** [int(text)] of an index raises ValueError beyond CPython's int/str digit
    limit ([sys.get_int_max_str_digits()], 4300 by default; the sign does not
    count): the lexer then reports "array index out of range" (fix C02/0024). *)
Definition max_index_digits : nat := 4300.
Definition index_too_long (r : str) (n : nat) : bool :=
  max_index_digits <? n - fst (opt_char 45 r).

Definition match_token (r : str) : option (tkind * nat) :=
  match match_float r with Some n => Some (TSym KFloat, n) | None =>
  match match_int r with Some n => Some (TSym KInt, n) | None =>
  match match_symbol symbols r with Some x => Some x | None =>
  let n := word_len r in if Nat.eqb n 0 then None else Some (TWord, n) end end end.

(** KEYWORD_MAP (lexer.py:105-121). *)
Definition keywords : list (str * ekind) :=
  [ ([116; 114; 117; 101]%N, KTrue); ([102; 97; 108; 115; 101]%N, KFalse);
    ([97; 110; 100]%N, KAnd); ([111; 114]%N, KOr); ([105; 110]%N, KIn);
    ([110; 111; 116]%N, KNot);
    ([99; 111; 110; 116; 97; 105; 110; 115]%N, KContains);
    ([110; 105; 108]%N, KNull); ([110; 117; 108; 108]%N, KNull);
    ([105; 102]%N, KIf); ([101; 108; 115; 101]%N, KElse);
    ([119; 105; 116; 104]%N, KWith);
    ([114; 101; 113; 117; 105; 114; 101; 100]%N, KRequired);
    ([97; 115]%N, KAs); ([102; 111; 114]%N, KFor) ].

Definition word_kind (v : str) : ekind :=
  match assoc v keywords with Some k => k | None => KWord end.

(** [int(text)] for text matching [-?[0-9]+]. *)
Fixpoint digits_val (acc : Z) (r : str) : Z :=
  match r with
  | c :: r' => digits_val (acc * 10 + (Z.of_N c - 48))%Z r'
  | [] => acc
  end.
Definition int_of_str (v : str) : Z :=
  match v with
  | c :: r => if N.eqb c 45 then (- digits_val 0 r)%Z else digits_val 0 v
  | [] => 0%Z
  end.

(** [text.replace("\\'", "'")] (lexer.py:356). *)
Fixpoint unescape_sq (v : str) : str :=
  match v with
  | 92%N :: 39%N :: r => 39%N :: unescape_sq r
  | c :: r => c :: unescape_sq r
  | [] => []
  end.

(** * The scanner state *)

Record st := mkst {
  pos : nat;          (* self.pos *)
  start : nat;        (* self.start *)
  mstart : nat;       (* self.markup_start (-1 before the first markup; never read before it is set) *)
  lstart : nat;       (* self.line_start   (idem) *)
  in_range : bool     (* self.in_range *)
}.

Definition set_pos (t : st) (p : nat) : st := mkst p (start t) (mstart t) (lstart t) (in_range t).
Definition set_start (t : st) (p : nat) : st := mkst (pos t) p (mstart t) (lstart t) (in_range t).
Definition set_both (t : st) (p : nat) : st := mkst p p (mstart t) (lstart t) (in_range t).
Definition set_mstart (t : st) (p : nat) : st := mkst (pos t) (start t) p (lstart t) (in_range t).
Definition set_lstart (t : st) (p : nat) : st := mkst (pos t) (start t) (mstart t) p (in_range t).
Definition set_in_range (t : st) (b : bool) : st := mkst (pos t) (start t) (mstart t) (lstart t) b.
(** [ignore()]: start = pos *)
Definition ignore (t : st) : st := set_start t (pos t).

Definition init_st : st := mkst 0 0 0 0 false.

(** Partial [PathToken] on [self.path_stack]: segments, start, stop. *)
Definition ppath := (list etok * nat * Z)%type.
Definition pp_push (p : ppath) (e : etok) : ppath := let '(l, a, b) := p in (l ++ [e], a, b).
Definition pp_stop (p : ppath) (b : nat) : ppath := let '(l, a, _) := p in (l, a, Z.of_nat b).
Definition pp_close (p : ppath) : etok := let '(l, a, b) := p in EPath l a b.

Definition is_kind (k : ekind) (e : etok) : bool :=
  match e, k with
  | ETok KLParen _ _, KLParen | ETok KRParen _ _, KRParen
  | ETok KDoubleDot _ _, KDoubleDot => true
  | _, _ => false
  end.

(** [range_stop_token.type_ in (INT, SINGLE_QUOTE_STRING, DOUBLE_QUOTE_STRING, PATH, WORD)] *)
Definition range_operand (allow_word : bool) (e : etok) : bool :=
  match e with
  | ETok KInt _ _ | ETok KSingleQuoteString _ _ | ETok KDoubleQuoteString _ _ => true
  | ETok KWord _ _ => allow_word
  | EPath _ _ _ => true
  | _ => false
  end.

Section Lexer.

(** [env.shorthand_indexes] and the source text. *)
Variable shorthand : bool.
Variable s : str.

Definition rest (i : nat) : str := skipn i s.
Definition peek_at (i : nat) : option N := nth_error s i.
(** [source[a:b]] for [a <= b] *)
Definition sub (a b : nat) : str := firstn (b - a) (skipn a s).

(** [self.error(msg)]: ErrorToken(index = self.pos) (lexer.py:770). *)
Definition syn {A} (i : nat) : res A := LErr LiquidSyntaxError (Some (Z.of_nat i)).

Definition peek_is (t : st) (c : N) : bool :=
  match peek_at (pos t) with Some d => N.eqb c d | None => false end.

(** [backup()] (lexer.py:266): error without a token when [pos <= start]. *)
Definition backup (t : st) : res st :=
  if pos t <=? start t then LErr LiquidSyntaxError None else Ok (set_pos t (pos t - 1)).

(** [ignore_whitespace()] (lexer.py:723), [consume_whitespace()],
    [ignore_line_space()]: a bare [Exception] unless [pos == start]. *)
Definition skip_class (p : N -> bool) (t : st) : res (st * nat) :=
  if negb (pos t =? start t) then PyExc OtherPyError
  else let n := fst (take_while p (rest (pos t))) in Ok (set_both t (pos t + n), n).
Definition ignore_ws (t : st) : res st := do x <- skip_class is_ws t ;; Ok (fst x).
Definition ignore_line_space (t : st) : res st := do x <- skip_class is_line_space t ;; Ok (fst x).

(** ** accept_string (lexer.py:403-447) — only used for quoted path segments.
    Scans from [p] (just after the opening quote); returns the position of the
    closing quote.  Errors: invalid escape at [index = pos] (after the
    backslash), unclosed string at [index = start]. *)
Fixpoint scan_string (q : N) (r : str) (p : nat) (st0 : nat) : res nat :=
  match r with
  | [] => syn st0
  | c :: r1 =>
      if N.eqb c 92 then
        match r1 with
        | d :: r2 => if is_escape d || N.eqb d q then scan_string q r2 (p + 2) st0 else syn (p + 1)
        | [] => syn (p + 1)
        end
      else if N.eqb c q then Ok p
      else scan_string q r1 (p + 1) st0
  end.

(** [if self.next() != "]": self.backup(); self.error(...) else: self.ignore()]
    (lexer.py:362-367, 375-380). *)
Definition expect_rbracket (t : st) : res st :=
  match peek_at (pos t) with
  | Some c =>
      if N.eqb c 93 then Ok (set_both t (S (pos t)))
      else do t1 <- backup (set_pos t (S (pos t))) ;; syn (pos t1)
  | None => do t1 <- backup t ;; syn (pos t1)
  end.

(** ** accept_path (lexer.py:288-401), loop body. [top] is
    [self.path_stack[-1]], [below] the rest of the stack. *)
Fixpoint path_loop (fuel : nat) (t : st) (top : ppath) (below : list ppath) : res (st * etok) :=
  match fuel with
  | O => OutOfFuel
  | S f =>
  match peek_at (pos t) with
  | None => syn (pos t)                                   (* "unexpected end of path" *)
  | Some c =>
    let t1 := set_pos t (S (pos t)) in                    (* c = self.next() *)
    if N.eqb c 46 then                                    (* "." *)
      if peek_is t1 46 then
        do t2 <- backup t1 ;;
        match below with [] => Ok (t2, pp_close top) | _ :: _ => syn (pos t2) end
      else
        do t3 <- ignore_ws (ignore t1) ;;
        let n := word_len (rest (pos t3)) in
        if negb (n =? 0) then
          let p := pos t3 + n in
          path_loop f (set_both t3 p) (pp_stop (pp_push top (ESegStr (sub (pos t3) p))) p) below
        else if shorthand then
          let n := index_len (rest (pos t3)) in
          if negb (n =? 0) then
            if index_too_long (rest (pos t3)) n then syn (pos t3) else   (* fix C02/0024 *)
            let p := pos t3 + n in
            (* fix C17/0005: the stop moves past the index, as for a property name *)
            path_loop f (set_both t3 p) (pp_stop (pp_push top (ESegInt (int_of_str (sub (pos t3) p)))) p) below
          else syn (pos t3)                               (* "array indexes must use bracket notation" *)
        else syn (pos t3)                                 (* "expected a property name or array index" *)
    else if N.eqb c 93 then                               (* "]" *)
      match below with
      | [] => do t2 <- backup t1 ;; syn (pos t2)          (* "unbalanced brackets" *)
      | parent :: below' =>
          let '(l, a, _) := top in
          let inner := EPath l a (Z.of_nat (start t1)) in (* path.stop = self.start *)
          let t2 := ignore t1 in
          path_loop f t2 (pp_stop (pp_push parent inner) (pos t2)) below'
      end
    else if N.eqb c 91 then                               (* "[" *)
      do t3 <- ignore_ws (ignore t1) ;;
      match peek_at (pos t3) with
      | Some q =>
          if N.eqb q 39 || N.eqb q 34 then
            let t4 := set_both t3 (S (pos t3)) in         (* quote = next(); ignore() *)
            do p <- scan_string q (rest (pos t4)) (pos t4) (start t4) ;;
            let raw := sub (start t4) p in
            let seg := if N.eqb q 34 then raw else unescape_sq raw in
            do t6 <- ignore_ws (set_both t4 (S p)) ;;     (* next(); ignore(); ignore_whitespace() *)
            do t7 <- expect_rbracket t6 ;;
            path_loop f t7 (pp_stop (pp_push top (ESegStr seg)) (start t7)) below
          else
            let n := index_len (rest (pos t3)) in
            if negb (n =? 0) then
              if index_too_long (rest (pos t3)) n then syn (pos t3) else   (* fix C02/0024 *)
              let p := pos t3 + n in
              do t5 <- ignore_ws (set_both t3 p) ;;
              do t6 <- expect_rbracket t5 ;;
              path_loop f t6 (pp_stop (pp_push top (ESegInt (int_of_str (sub (pos t3) p)))) (start t6)) below
            else
              let n := word_len (rest (pos t3)) in
              if negb (n =? 0) then                       (* a nested path *)
                let p := pos t3 + n in
                path_loop f (set_both t3 p)
                  ([ESegStr (sub (pos t3) p)], start t3, Z.of_nat p) (top :: below)
              else syn (pos t3)                           (* "empty bracketed segment" / "expected a string, ..." *)
      | None => syn (pos t3)
      end
    else
      do t2 <- backup t1 ;;
      match below with [] => Ok (t2, pp_close top) | _ :: _ => syn (pos t2) end
  end
  end.

(** accept_path(carry) (lexer.py:288-301). *)
Definition accept_path (fuel : nat) (t : st) (carry : bool) : res (st * etok) :=
  if carry then
    path_loop fuel (set_start t (pos t))
      ([ESegStr (sub (start t) (pos t))], start t, Z.of_nat (pos t)) []
  else path_loop fuel t ([], start t, (-1)%Z) [].

(** ** accept_range (lexer.py:587-640, with fix C02/0002). [rexpr] is the
    expression being scanned, most recent token first. *)
Definition accept_range (rexpr : list etok) : res (list etok) :=
  match rexpr with
  | rparen :: rstop :: dd :: rstart :: lparen :: tl =>
      if negb (is_kind KRParen rparen) then PyExc AssertionError
      else if negb (range_operand true rstop) then syn (etok_start rstop)
      else if negb (is_kind KDoubleDot dd) then syn (etok_start dd)
      else if negb (range_operand false rstart) then syn (etok_start rstart)
      else if negb (is_kind KLParen lparen) then syn (etok_start lparen)
      else Ok (ERange rstart rstop (etok_start lparen) (etok_start rparen + 1) :: tl)
  | last :: _ => syn (etok_start last)         (* fewer than five tokens *)
  | [] => PyExc IndexError                     (* unreachable: the ")" was just appended *)
  end.

(** The plain string token at the end of a run of string characters
    (lexer.py:499-508, 544-552). *)
Definition flush_string (dq : bool) (t : st) (parts : list etok) : list etok :=
  if start t <? pos t - 1 then
    parts ++ [ETok (if dq then KDoubleQuoteString else KSingleQuoteString)
                   (sub (start t) (pos t - 1)) (start t)]
  else parts.

(** ** accept_token (lexer.py:642-724), accept_template_string (449-585) and
    the [${ ... }] sub-expression loop (515-540). *)
Fixpoint accept_token (fuel : nat) (t : st) (rexpr : list etok) {struct fuel}
  : res (option (st * list etok)) :=
  match fuel with
  | O => OutOfFuel
  | S f =>
  match match_token (rest (pos t)) with
  | None => Ok None
  | Some (k, n) =>
    let t1 := set_pos t (pos t + n) in
    match k with
    | TSingleQuote =>
        do x <- template_string f (ignore t1) false rexpr ;; Ok (Some x)
    | TDoubleQuote =>
        do x <- template_string f (ignore t1) true rexpr ;; Ok (Some x)
    | TLBracket =>
        do t2 <- backup t1 ;;
        do x <- accept_path f t2 false ;;
        Ok (Some (fst x, snd x :: rexpr))
    | TWord =>
        if peek_is t1 46 || peek_is t1 91 then
          do x <- accept_path f t1 true ;;
          Ok (Some (ignore (fst x), snd x :: rexpr))
        else
          let v := sub (start t1) (pos t1) in
          Ok (Some (ignore t1, ETok (word_kind v) v (start t1) :: rexpr))
    | TSym kd =>
        let v := sub (start t1) (pos t1) in
        let rexpr1 := ETok kd v (start t1) :: rexpr in
        let t2 := ignore t1 in
        let t3 := match kd with KDoubleDot => set_in_range t2 true | _ => t2 end in
        match kd with
        | KRParen =>
            if in_range t3 then
              do rexpr2 <- accept_range rexpr1 ;; Ok (Some (set_in_range t3 false, rexpr2))
            else Ok (Some (t3, rexpr1))
        | _ => Ok (Some (t3, rexpr1))
        end
    end
  end
  end

(** [t]: just after the opening quote, [start = pos]. *)
with template_string (fuel : nat) (t : st) (dq : bool) (rexpr : list etok) {struct fuel}
  : res (st * list etok) :=
  match fuel with
  | O => OutOfFuel
  | S f =>
    let q := if dq then 34%N else 39%N in
    if peek_is t q then                                     (* an empty string *)
      let t1 := set_pos t (S (pos t)) in
      Ok (ignore t1,
          ETok (if dq then KDoubleQuoteString else KSingleQuoteString) [] (start t) :: rexpr)
    else ts_loop f t dq (start t) [] rexpr
  end

with ts_loop (fuel : nat) (t : st) (dq : bool) (tstart : nat) (parts : list etok)
             (rexpr : list etok) {struct fuel} : res (st * list etok) :=
  match fuel with
  | O => OutOfFuel
  | S f =>
  let q := if dq then 34%N else 39%N in
  match peek_at (pos t) with
  | None => syn (start t)                                   (* "unclosed string or template string expression" *)
  | Some c =>
    let t1 := set_pos t (S (pos t)) in                      (* c = self.next() *)
    if N.eqb c 92 then                                      (* backslash *)
      match peek_at (pos t1) with
      | Some d =>
          if is_escape d || N.eqb d q then ts_loop f (set_pos t1 (S (pos t1))) dq tstart parts rexpr
          else syn (pos t1)                                 (* "invalid escape sequence" *)
      | None => syn (pos t1)
      end
    else if N.eqb c 36 && peek_is t1 123 then               (* "${" *)
      let parts1 := flush_string dq t1 parts in
      let t2 := set_both t1 (S (pos t1)) in                 (* start = pos-1; next(); ignore() *)
      do x <- sub_loop f t2 [] ;;
      let '(t3, sub) := x in
      if peek_is t3 125 then
        let parts2 := parts1 ++ [EOut (start t2) (pos t3) (rev sub)] in
        ts_loop f (set_both t3 (S (pos t3))) dq tstart parts2 rexpr
      else syn (pos t3)                                     (* "unexpected end of template string expression" *)
    else if N.eqb c q then
      let parts1 := flush_string dq t1 parts in
      let tok :=
        match parts1 with
        | [ETok k v i] => ETok k v i                        (* just a plain string *)
        | _ => ETemplate dq parts1 tstart (pos t1 - 1)           (* fix C17/0015: stops before the closing quote *)
        end in
      Ok (ignore t1, tok :: rexpr)
    else ts_loop f t1 dq tstart parts rexpr
  end
  end

(** [while True: ignore_whitespace(); if not accept_token(sub_expression): ...] *)
with sub_loop (fuel : nat) (t : st) (rexpr : list etok) {struct fuel} : res (st * list etok) :=
  match fuel with
  | O => OutOfFuel
  | S f =>
    do t1 <- ignore_ws t ;;
    do r <- accept_token f t1 rexpr ;;
    match r with
    | Some (t2, rexpr2) => sub_loop f t2 rexpr2
    | None => Ok (t1, rexpr)
    end
  end.

(** ** lex_inside_output_statement (lexer.py:909-938) and lex_inside_tag
    (940-969): the expression up to [closer] ([}}] or [%}]). Returns the state
    after the closing delimiter (before the final [ignore()]), the right-hand
    marker and the expression. *)
Definition expression_until (fuel : nat) (closer : str) (t : st) : res (st * wc * list etok) :=
  do x <- sub_loop fuel t [] ;;
  let '(t1, rexpr) := x in
  match wc_end closer (rest (pos t1)) with
  | Some (w, n) => Ok (set_pos t1 (pos t1 + n), w, rev rexpr)
  | None => syn (pos t1)               (* "missing bracket detected" / "unexpected ..." *)
  end.

(** ** RE_LINE_COMMENT / RE_REST_OF_LINE (lexer.py:49-50): lazy up to the first
    newline or tag end; no DOTALL, but [.] never has to cross the newline at
    which the lookahead succeeds. *)
Definition line_stop (r : str) : option unit :=
  match r with
  | c :: _ =>
      if N.eqb c 10 then Some tt
      else match wc_end L_pct_rbrace r with Some _ => Some tt | None => None end
  | [] => None
  end.
Definition rest_of_line (r : str) : option nat :=
  dopt (k, _) <- find_first line_stop r ;; Some k.
Definition line_comment (r : str) : option nat :=
  match r with
  | c :: r1 => if N.eqb c 35 then dopt k <- rest_of_line r1 ;; Some (S k) else None
  | [] => None
  end.
(** RE_LINE_TERM [\r?\n] *)
Definition line_term (r : str) : nat :=
  match r with
  | c :: r1 =>
      if N.eqb c 10 then 1
      else if N.eqb c 13 then match r1 with d :: _ => if N.eqb d 10 then 2 else 0 | [] => 0 end
      else 0
  | [] => 0
  end.
(** RE_TAG_NAME [[a-z][a-z_0-9]*\b]: length, 0 when no match. *)
Definition tag_name_len (r : str) : nat :=
  match r with
  | c :: r1 =>
      if is_lower c then
        let '(m, r2) := take_while is_tagname_char r1 in
        if word_boundary_after r2 then S m else 0
      else 0
  | [] => 0
  end.

(** [self.accept(pattern)] for patterns given as an optional length. *)
Definition accept_opt (t : st) (m : option nat) : st :=
  match m with Some n => set_pos t (pos t + n) | None => t end.

(** ** lex_inside_line_statement (lexer.py:1032-1091). [Some w]: the liquid
    tag ended here with marker [w]. *)
Fixpoint line_statement (fuel : nat) (t : st) (name : str) (rexpr : list etok)
  : res (st * ltok * option wc) :=
  match fuel with
  | O => OutOfFuel
  | S f =>
    do t1 <- ignore_line_space t ;;
    let n := line_term (rest (pos t1)) in
    if negb (n =? 0) then
      let t2 := set_pos t1 (pos t1 + n) in
      Ok (ignore t2, LTag (lstart t2) (start t2) name (rev rexpr), None)
    else
      do r <- accept_token f t1 rexpr ;;
      match r with
      | Some (t2, rexpr2) => line_statement f t2 name rexpr2
      | None =>
          match wc_end L_pct_rbrace (rest (pos t1)) with
          | Some (w, m) =>
              (* fix C17/0014: the statement stops where the closing delimiter starts *)
              let t2 := set_both t1 (pos t1 + m) in
              Ok (t2, LTag (lstart t2) (pos t1) name (rev rexpr), Some w)
          | None =>
              (* self.error(f"unknown symbol '{self.next()}'"): next() moves pos only and the
                 error token starts at self.start (fix C17/0012) *)
              syn (pos t1)
          end
      end
  end.

(** [self.accept(self.RE_REST_OF_LINE); self.accept(self.RE_LINE_TERM)] *)
Definition eol (u : st) : st :=
  let u1 := accept_opt u (rest_of_line (rest (pos u))) in
  set_pos u1 (pos u1 + line_term (rest (pos u1))).

(** [self.accept(self.RE_WHITESPACE)]: move [pos] (only) past [[ \n\r\t]*]. *)
Definition skip_ws (t : st) : st :=
  set_pos t (pos t + fst (take_while is_ws (rest (pos t)))).

(** ** lex_inside_liquid_block_comment (lexer.py:1142-1186), loop. Lines of the
    comment block may be indented (fix of defect 31: the loop starts by
    skipping whitespace). *)
Fixpoint liquid_block_comment (fuel : nat) (t : st) (depth : nat) : res (st * ltok) :=
  match fuel with
  | O => OutOfFuel
  | S f =>
    let t := skip_ws t in
    let r := rest (pos t) in
    let n := tag_name_len r in
    if negb (n =? 0) then
      let t1 := set_pos t (pos t + n) in
      let name := firstn n r in
      if str_eqb name L_endcomment then
        if depth =? 1 then
          let t2 := eol t1 in
          Ok (set_start t2 (pos t2),
              LComment CBlock (lstart t2) (pos t2) (sub (start t1) (pos t1 - n)) [])
        else liquid_block_comment f (eol t1) (depth - 1)
      else if str_eqb name L_comment then liquid_block_comment f (eol t1) (S depth)
      else liquid_block_comment f (eol t1) depth
    else
      match line_comment r with
      | Some m =>
          let t1 := set_pos t (pos t + m) in
          liquid_block_comment f (set_pos t1 (pos t1 + line_term (rest (pos t1)))) depth
      | None => syn (start t)          (* "unclosed comment block detected", at the comment's text (fix C17/0012) *)
      end
  end.

(** ** lex_inside_liquid_tag (lexer.py:971-1030) with its two sub-states.
    Returns the state after the closing [%}] and the [LinesToken]. *)
Fixpoint liquid_tag (fuel : nat) (t : st) (w0 : wc) (stmts : list ltok) (wss : list str)
  : res (st * mtok) :=
  match fuel with
  | O => OutOfFuel
  | S f =>
    do x <- skip_class is_ws t ;;                           (* consume_whitespace() *)
    let '(t1, nws) := x in
    let wss1 := sub (pos t) (pos t + nws) :: wss in
    let r := rest (pos t1) in
    let finish (u : st) (w1 : wc) (stmts' : list ltok) :=
      Ok (u, MLines (mstart u) (pos u) w0 w1 L_liquid (rev stmts') (rev wss1)) in
    match wc_end L_pct_rbrace r with
    | Some (w1, n) => finish (set_both t1 (pos t1 + n)) w1 stmts
    | None =>
      let n := tag_name_len r in
      if negb (n =? 0) then
        let name := firstn n r in
        let t2 := set_in_range (set_lstart (set_both t1 (pos t1 + n)) (start t1)) false in
        if str_eqb name L_comment then
          do t3 <- ignore_ws t2 ;;
          do y <- liquid_block_comment f t3 1 ;;
          liquid_tag f (fst y) w0 (snd y :: stmts) wss1
        else
          do y <- line_statement f t2 name [] ;;
          let '(t3, tok, fin) := y in
          match fin with
          | None => liquid_tag f t3 w0 (tok :: stmts) wss1
          | Some w1 => finish t3 w1 (tok :: stmts)
          end
      else
        match line_comment r with
        | Some m =>
            let t2 := set_both t1 (pos t1 + m) in
            let tok := LComment CComment (start t1) (pos t2) (sub (S (pos t1)) (pos t2)) L_hash in
            let t3 := if peek_is t2 10 then set_both t2 (S (pos t2)) else t2 in
            liquid_tag f t3 w0 (tok :: stmts) wss1
        | None =>
            (* self.next(); self.error("expected a tag name"): the error token starts at
               self.start (fix C17/0012) *)
            syn (pos t1)
        end
    end
  end.

(** ** RE_COMMENT_TAG_CHUNK (lexer.py:61-66) and lex_inside_block_comment
    (1093-1140, with fix C17/0001). *)
Inductive chunk_end := ChComment | ChEndcomment | ChRaw | ChEndraw.

(** At the head of [r]: [\{%[\-+~]?\s*NAME.*?([+\-~]?)%\}] — name, final marker, length. *)
Definition chunk_tail (r : str) : option (chunk_end * wc * nat) :=
  dopt (_, n, r1) <- tag_open r ;;
  let try (lit : str) (ce : chunk_end) :=
    dopt r2 <- starts lit r1 ;;
    dopt (k, (w, m)) <- find_first (wc_end L_pct_rbrace) r2 ;;
    Some (ce, w, n + length lit + k + m) in
  match try L_comment ChComment with Some x => Some x | None =>
  match try L_endcomment ChEndcomment with Some x => Some x | None =>
  match try L_raw ChRaw with Some x => Some x | None =>
  try L_endraw ChEndraw end end end.

Fixpoint block_comment (fuel : nat) (t : st) (w0 : wc) (cdepth rdepth : nat) : res (st * mtok) :=
  match fuel with
  | O => OutOfFuel
  | S f =>
    match find_first chunk_tail (rest (pos t)) with
    | None => syn (start t)                                 (* "unclosed comment block detected", at the comment's text (fix C17/0012) *)
    | Some (k, (ce, w1, m)) =>
        let t1 := set_pos t (pos t + k + m) in
        match ce with
        | ChComment => block_comment f t1 w0 (S cdepth) rdepth
        | ChEndcomment =>
            if negb (rdepth =? 0) then block_comment f t1 w0 cdepth rdepth
            else if cdepth =? 1 then
              Ok (set_start t1 (pos t1),
                  MComment CBlock (mstart t1) (pos t1) w0 w1 (sub (start t) (pos t + k)) [])
            else block_comment f t1 w0 (cdepth - 1) rdepth
        | ChRaw => block_comment f t1 w0 cdepth (S rdepth)
        | ChEndraw => block_comment f t1 w0 cdepth (rdepth - 1)
        end
    end
  end.

(** ** lex_markup (lexer.py:802-907) and [run]. Tokens accumulate most recent
    first. *)
Fixpoint lex_loop (fuel : nat) (t : st) (acc : list mtok) : res (list mtok) :=
  match fuel with
  | O => OutOfFuel
  | S f =>
    let p := pos t in
    match match_markup (rest p) with
    | None => if p =? length s then Ok (rev acc) else PyExc AssertionError
    | Some (MkContent n) =>
        let t1 := set_both t (p + n) in
        lex_loop f t1 (MContent (start t) (p + n) (sub p (p + n)) :: acc)
    | Some (MkRaw w0 w1 w2 w3 toff tlen n) =>
        let t1 := set_both t (p + n) in
        lex_loop f t1 (MRaw (start t) (p + n) w0 w1 w2 w3 (sub (p + toff) (p + toff + tlen)) :: acc)
    | Some (MkComment h w0 w1 toff tlen n) =>
        let t1 := set_both t (p + n) in                     (* fix C17/0001: start = pos *)
        lex_loop f t1 (MComment CComment (start t) (p + n) w0 w1
                         (sub (p + toff) (p + toff + tlen)) (repeat 35%N h) :: acc)
    | Some (MkInline w0 w1 toff tlen n) =>
        let t1 := set_both t (p + n) in                     (* fix C17/0001 *)
        lex_loop f t1 (MComment CInline (start t) (p + n) w0 w1
                         (sub (p + toff) (p + toff + tlen)) [] :: acc)
    | Some (MkOutput w0 n) =>
        (* fix C17/0011: in_range is cleared where a markup begins *)
        let t1 := set_in_range (set_both (set_mstart t (start t)) (p + n)) false in
        do x <- expression_until f L_rbrace2 t1 ;;
        let '(t2, w1, expr) := x in
        lex_loop f (ignore t2) (MOutput (mstart t2) (pos t2) w0 w1 expr :: acc)
    | Some (MkTag w0 noff nlen) =>
        let t1 := set_in_range (set_both (set_mstart t (start t)) (p + noff + nlen)) false in
        let name := sub (p + noff) (p + noff + nlen) in
        if str_eqb name L_liquid then
          do x <- liquid_tag f t1 w0 [] [] ;;
          lex_loop f (fst x) (snd x :: acc)
        else
          do x <- expression_until f L_pct_rbrace t1 ;;
          let '(t2, w1, expr) := x in
          lex_loop f (ignore t2) (MTag (mstart t2) (pos t2) w0 w1 name expr :: acc)
    | Some (MkCommentTag w0 n) =>
        let t1 := set_both (set_mstart t (start t)) (p + n) in
        do x <- block_comment f t1 w0 1 0 ;;
        lex_loop f (fst x) (snd x :: acc)
    end
  end.

Definition lex_fuel (fuel : nat) : res (list mtok) := lex_loop fuel init_st [].

End Lexer.

(** Enough fuel for every source text (Proofs/Lex_proofs.v: [lex_fuel_sufficient]). *)
Definition fuel_lex (s : str) : nat := 2 * length s + 8.

(** [liquid2.tokenize(env, source)] *)
Definition lex (shorthand : bool) (s : str) : res (list mtok) :=
  lex_fuel shorthand s (fuel_lex s).

(** * Specification vocabulary

    [l] (in source order) covers exactly [a, b): each token starts where the
    previous one stopped, the first at [a], the last stops at [b], none is
    empty. *)
Fixpoint tiled (l : list mtok) (a b : nat) : Prop :=
  match l with
  | [] => a = b
  | m :: l' => mtok_start m = a /\ a < mtok_stop m /\ tiled l' (mtok_stop m) b
  end.

Definition zstart (e : etok) : Z := Z.of_nat (etok_start e).

(** [tok_ok s e]: the expression token [e] is well placed in the source [s] —
    a plain token spells the source text of its span; the children of a path
    (nested paths), of a template string (string pieces and [${...}] outputs),
    of such an output and of a range lie inside their parent's span, in order,
    and are themselves well placed.
    [chain s lo l hi]: the tokens of [l] (source order) lie in [lo, hi], each
    starting at or after the stop of the previous one.
    [segs_ok s lo l hi]: the same for the nested paths among the segments of a
    path ([int] and [str] segments carry no position). *)
Inductive tok_ok (s : str) : etok -> Prop :=
| ok_tok k v i :
    v = firstn (length v) (skipn i s) -> i + length v <= length s -> tok_ok s (ETok k v i)
| ok_path l a b :
    (Z.of_nat a <= b)%Z -> segs_ok s (Z.of_nat a) l b -> tok_ok s (EPath l a b)
| ok_template dq parts a b :
    chain s (Z.of_nat a) parts (Z.of_nat b) -> tok_ok s (ETemplate dq parts a b)
| ok_out a b expr :
    chain s (Z.of_nat a) expr (Z.of_nat b) -> tok_ok s (EOut a b expr)
| ok_range x y a b :
    chain s (Z.of_nat a) [x; y] (Z.of_nat b) -> tok_ok s (ERange x y a b)
with chain (s : str) : Z -> list etok -> Z -> Prop :=
| chain_nil lo hi : (lo <= hi)%Z -> chain s lo [] hi
| chain_cons lo hi e l :
    (lo <= zstart e)%Z -> tok_ok s e -> chain s (etok_stop e) l hi -> chain s lo (e :: l) hi
with segs_ok (s : str) : Z -> list etok -> Z -> Prop :=
| segs_nil lo hi : (lo <= hi)%Z -> segs_ok s lo [] hi
| segs_int lo hi z l : segs_ok s lo l hi -> segs_ok s lo (ESegInt z :: l) hi
| segs_str lo hi v l : segs_ok s lo l hi -> segs_ok s lo (ESegStr v :: l) hi
| segs_path lo hi l' a b l :
    (lo <= Z.of_nat a)%Z -> tok_ok s (EPath l' a b) -> segs_ok s b l hi ->
    segs_ok s lo (EPath l' a b :: l) hi.

Definition ltok_start (t : ltok) : nat :=
  match t with LTag a _ _ _ | LComment _ a _ _ _ => a end.
Definition ltok_stop (t : ltok) : nat :=
  match t with LTag _ b _ _ | LComment _ _ b _ _ => b end.

(** A line statement of a liquid tag: a tag line starts with its name and
    holds its expression; a comment's text lies inside it. *)
Definition ltok_inner (s : str) (t : ltok) : Prop :=
  match t with
  | LTag a b name expr =>
      a <= b /\ name = firstn (length name) (skipn a s) /\ chain s (Z.of_nat a) expr (Z.of_nat b)
  | LComment _ a b text _ =>
      a <= b /\ exists x, a <= x /\ x + length text <= b /\ text = firstn (length text) (skipn x s)
  end.

(** Line statements lie in [lo, hi], in order. *)
Fixpoint lines_ok (s : str) (lo hi : nat) (l : list ltok) : Prop :=
  match l with
  | [] => lo <= hi
  | t :: l' => lo <= ltok_start t /\ ltok_inner s t /\ lines_ok s (ltok_stop t) hi l'
  end.

(** [source[a:b]] as a function of the source (the section's [sub] with [s] explicit). *)
Definition slice (s : str) (a b : nat) : str := firstn (b - a) (skipn a s).

(** [mtok_ok s m]: the markup token's text is the source text it was scanned
    from, its delimiters sit at the ends of its span, and its expression
    tokens are nested in order strictly inside the delimiters. *)
Definition mtok_ok (s : str) (m : mtok) : Prop :=
  match m with
  | MContent a b text => text = slice s a b
  | MRaw a b _ _ _ _ text =>
      slice s a (a + 2) = [123; 37]%N /\ slice s (b - 2) b = [37; 125]%N /\
      exists x, a + 2 <= x /\ x + length text + 2 <= b /\ text = slice s x (x + length text)
  | MComment cls a b _ _ text hashes =>
      (exists x, a + 2 <= x /\ x + length text + 2 <= b /\ text = slice s x (x + length text)) /\
      match cls with
      | CComment =>
          1 <= length hashes /\ hashes = repeat 35%N (length hashes) /\
          slice s a (a + 1 + length hashes) = 123%N :: hashes /\
          slice s (b - 1 - length hashes) b = hashes ++ [125%N]
      | CBlock | CInline =>
          hashes = [] /\ slice s a (a + 2) = [123; 37]%N /\ slice s (b - 2) b = [37; 125]%N
      end
  | MOutput a b _ _ expr =>
      slice s a (a + 2) = [123; 123]%N /\ slice s (b - 2) b = [125; 125]%N /\
      chain s (Z.of_nat (a + 2)) expr (Z.of_nat (b - 2))
  | MTag a b _ _ name expr =>
      slice s a (a + 2) = [123; 37]%N /\ slice s (b - 2) b = [37; 125]%N /\
      (exists x, a + 2 <= x /\ name = slice s x (x + length name) /\
                 chain s (Z.of_nat (x + length name)) expr (Z.of_nat (b - 2)))
  | MLines a b _ _ name stmts ws =>
      slice s a (a + 2) = [123; 37]%N /\ slice s (b - 2) b = [37; 125]%N /\
      name = L_liquid /\ lines_ok s (a + 2) b stmts
  end.

(** * Boolean equality of token dumps (for the correspondence runner) *)

Definition wc_eqb (a b : wc) : bool :=
  match a, b with
  | WDefault, WDefault | WMinus, WMinus | WPlus, WPlus | WTilde, WTilde => true
  | _, _ => false
  end.

Definition ekind_code (k : ekind) : nat :=
  match k with
  | KWord => 0 | KTrue => 1 | KFalse => 2 | KAnd => 3 | KOr => 4 | KIn => 5 | KNot => 6
  | KContains => 7 | KNull => 8 | KIf => 9 | KElse => 10 | KWith => 11 | KRequired => 12
  | KAs => 13 | KFor => 14 | KFloat => 15 | KInt => 16 | KGe => 17 | KLe => 18 | KEq => 19
  | KNe => 20 | KGt => 21 | KLt => 22 | KDoubleDot => 23 | KDoublePipe => 24 | KAssign => 25
  | KLParen => 26 | KRParen => 27 | KColon => 28 | KComma => 29 | KPipe => 30
  | KExclaim => 31 | KQuestion => 32 | KArrow => 33 | KSingleQuoteString => 34
  | KDoubleQuoteString => 35
  end.
Definition ekind_eqb (a b : ekind) : bool := Nat.eqb (ekind_code a) (ekind_code b).

Fixpoint etok_eqb (a b : etok) {struct a} : bool :=
  let fix go (l l' : list etok) {struct l} : bool :=
    match l, l' with
    | [], [] => true
    | x :: m, y :: m' => etok_eqb x y && go m m'
    | _, _ => false
    end in
  match a, b with
  | ETok k v i, ETok k' v' i' => ekind_eqb k k' && str_eqb v v' && Nat.eqb i i'
  | ESegInt z, ESegInt z' => Z.eqb z z'
  | ESegStr v, ESegStr v' => str_eqb v v'
  | EPath l x y, EPath l' x' y' => go l l' && Nat.eqb x x' && Z.eqb y y'
  | ETemplate d l x y, ETemplate d' l' x' y' =>
      Bool.eqb d d' && go l l' && Nat.eqb x x' && Nat.eqb y y'
  | EOut x y l, EOut x' y' l' => Nat.eqb x x' && Nat.eqb y y' && go l l'
  | ERange p q x y, ERange p' q' x' y' =>
      etok_eqb p p' && etok_eqb q q' && Nat.eqb x x' && Nat.eqb y y'
  | _, _ => false
  end.

Definition ccls_eqb (a b : ccls) : bool :=
  match a, b with
  | CComment, CComment | CBlock, CBlock | CInline, CInline => true
  | _, _ => false
  end.

Definition ltok_eqb (a b : ltok) : bool :=
  match a, b with
  | LTag x y n e, LTag x' y' n' e' =>
      Nat.eqb x x' && Nat.eqb y y' && str_eqb n n' && list_eqb etok_eqb e e'
  | LComment c x y t h, LComment c' x' y' t' h' =>
      ccls_eqb c c' && Nat.eqb x x' && Nat.eqb y y' && str_eqb t t' && str_eqb h h'
  | _, _ => false
  end.

Definition mtok_eqb (a b : mtok) : bool :=
  match a, b with
  | MContent x y t, MContent x' y' t' => Nat.eqb x x' && Nat.eqb y y' && str_eqb t t'
  | MRaw x y a0 a1 a2 a3 t, MRaw x' y' b0 b1 b2 b3 t' =>
      Nat.eqb x x' && Nat.eqb y y' && wc_eqb a0 b0 && wc_eqb a1 b1 && wc_eqb a2 b2
      && wc_eqb a3 b3 && str_eqb t t'
  | MComment c x y a0 a1 t h, MComment c' x' y' b0 b1 t' h' =>
      ccls_eqb c c' && Nat.eqb x x' && Nat.eqb y y' && wc_eqb a0 b0 && wc_eqb a1 b1
      && str_eqb t t' && str_eqb h h'
  | MOutput x y a0 a1 e, MOutput x' y' b0 b1 e' =>
      Nat.eqb x x' && Nat.eqb y y' && wc_eqb a0 b0 && wc_eqb a1 b1 && list_eqb etok_eqb e e'
  | MTag x y a0 a1 n e, MTag x' y' b0 b1 n' e' =>
      Nat.eqb x x' && Nat.eqb y y' && wc_eqb a0 b0 && wc_eqb a1 b1 && str_eqb n n'
      && list_eqb etok_eqb e e'
  | MLines x y a0 a1 n l w, MLines x' y' b0 b1 n' l' w' =>
      Nat.eqb x x' && Nat.eqb y y' && wc_eqb a0 b0 && wc_eqb a1 b1 && str_eqb n n'
      && list_eqb ltok_eqb l l' && list_eqb str_eqb w w'
  | _, _ => false
  end.

Definition lex_eqb (a b : res (list mtok)) : bool := res_eqb (list_eqb mtok_eqb) a b.
