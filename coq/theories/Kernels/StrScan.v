(** Kernels/StrScan.v — MODEL of the string scanners of liquid2/lexer.py:
    [accept_string] (403-447, used for bracketed path segments, 346-359) and
    [accept_template_string] (449-585, used for every other string literal).

    The scanners work on the text that follows the opening quote.  [quote] is
    only ever a single or a double quote character (lexer.py:347,653,656).  Error positions are not
    modelled.  (The IndexError of an unclosed literal at the end of the input,
    DESIGN §10 item 3, is repaired in the tree by commit 607bd91 of C02/C17:
    an unclosed literal is always a LiquidSyntaxError.) *)
From LQ Require Import Base.Str Kernels.Unescape.
Local Open Scope N_scope.

(** lexer.py:70 [ESCAPES] *)
Definition is_escape (c : N) : bool :=
  (c =? 98) || (c =? 102) || (c =? 110) || (c =? 114) || (c =? 116) || (c =? CH_u)
  || (c =? 47) || (c =? BSL) || (c =? DOLLAR).

(** ** accept_string, lexer.py:403-447.
    Returns the raw text and the remaining source, which starts with the
    closing quote (leave the closing quote for the caller). *)
Fixpoint accept_string_loop (q : N) (src : str) : res (str * str) :=
  match src with
  | [] => syntax_error                                   (* unclosed string literal *)
  | c :: r =>
      if c =? BSL then
        match r with
        | [] => syntax_error                             (* peek() at the end of input is no escape *)
        | e :: r' =>
            if is_escape e || (e =? q) then
              do x <- accept_string_loop q r' ;;
              let '(raw, rest) := x in Ok (c :: e :: raw, rest)
            else syntax_error                            (* invalid escape sequence *)
        end
      else if c =? q then Ok ([], src)                   (* backup(); return *)
      else
        do x <- accept_string_loop q r ;;
        let '(raw, rest) := x in Ok (c :: raw, rest)
  end.

Definition accept_string (q : N) (src : str) : res (str * str) :=
  match src with
  | [] => syntax_error                   (* unclosed string literal *)
  | c :: _ => if c =? q then Ok ([], src) else accept_string_loop q src
  end.

(** The bracketed path segment, lexer.py:346-359: scan, take the raw text,
    (single quotes: replace), skip the closing quote.  Returns the segment as
    stored in the PathToken and the source after the closing quote. *)
Definition path_segment (q : N) (src : str) : res (str * str) :=
  do x <- accept_string q src ;;
  let '(raw, rest) := x in
  let seg := if q =? DQ then raw else replace_bsl_sq raw in
  Ok (seg, tl rest).

(** ** accept_template_string, lexer.py:449-585. *)
Section TemplateString.
  (** The scanner of a [${ ... }] sub-expression (the [ignore_whitespace] /
      [accept_token] loop, lexer.py:515-517) is a parameter: given the source
      after [${] it returns what it lexed and the source at which
      [accept_token] first returned False. *)
  Variable E : Type.
  Variable sub : str -> res (E * str).

  Inductive part := PStr (raw : str) | PExpr (e : E).
  Inductive tstoken := TPlain (raw : str) | TTemplate (ps : list part).

  (** [if self.pos - 1 > self.start: template_string.append(Token(...))] *)
  Definition emit (seg : str) : list part :=
    match seg with [] => [] | _ => [PStr seg] end.

  (** Returns the text from here to the next [${] or closing quote, the parts
      after it, and the source after the closing quote. *)
  Fixpoint ts_loop (fuel : nat) (q : N) (src : str)
    : res (str * list part * str) :=
    match fuel with
    | O => OutOfFuel
    | S fuel' =>
        match src with
        | [] => syntax_error                                    (* unclosed *)
        | c :: r =>
            if c =? BSL then
              match r with
              | [] => syntax_error
              | e :: r' =>
                  if is_escape e || (e =? q) then
                    do x <- ts_loop fuel' q r' ;;
                    let '(seg, ps, rest) := x in Ok (c :: e :: seg, ps, rest)
                  else syntax_error
              end
            else if (c =? DOLLAR)
                    && match r with b :: _ => b =? LBRACE | [] => false end then
              do x <- sub (tl r) ;;
              let '(e, r2) := x in
              match r2 with
              | b :: r3 =>
                  if b =? RBRACE then
                    do y <- ts_loop fuel' q r3 ;;
                    let '(seg, ps, rest) := y in
                    Ok ([], PExpr e :: emit seg ++ ps, rest)
                  else syntax_error       (* unexpected end of template string expression *)
              | [] => syntax_error
              end
            else if c =? q then Ok ([], [], r)
            else
              do x <- ts_loop fuel' q r ;;
              let '(seg, ps, rest) := x in Ok (c :: seg, ps, rest)
        end
    end.

  Definition accept_template_string (q : N) (src : str) : res (tstoken * str) :=
    match src with
    | c :: r =>
        if c =? q then Ok (TPlain [], r)                   (* an empty string *)
        else
          do x <- ts_loop (S (List.length src)) q src ;;
          let '(seg, ps, rest) := x in
          match emit seg ++ ps with
          | [PStr raw] => Ok (TPlain raw, rest)           (* just a plain string *)
          | parts => Ok (TTemplate parts, rest)
          end
    | [] => syntax_error                                 (* unclosed *)
    end.

  (** expressions.py:352-379,398-401: the value of a template string, given
      the (stringified) values of its sub-expressions. *)
  Fixpoint parts_value (q : N) (ev : E -> str) (ps : list part) : res str :=
    match ps with
    | [] => Ok []
    | PStr raw :: ps' =>
        do s <- site_value SiteTemplatePart q raw ;;
        do r <- parts_value q ev ps' ;; Ok (s ++ r)
    | PExpr e :: ps' =>
        do r <- parts_value q ev ps' ;; Ok (ev e ++ r)
    end.

  (** The value of a string token at an expression site ([parse_primitive],
      expressions.py:669-678; [parse_boolean_primitive] 1168-1175). *)
  Definition token_value (st : site) (q : N) (ev : E -> str) (t : tstoken) : res str :=
    match t with
    | TPlain raw => site_value st q raw
    | TTemplate ps => parts_value q ev ps
    end.
End TemplateString.

Arguments PStr {E} raw.
Arguments PExpr {E} e.
Arguments TPlain {E} raw.
Arguments TTemplate {E} ps.

(** ** A concrete sub-expression scanner for the tie: whitespace-separated
    ASCII words (variables).  It transcribes the loop
    [ignore_whitespace(); accept_token(sub_expression)] for the inputs where
    every token is a WORD not followed by [.] or [[]; on anything else that
    [accept_token] would lex (numbers, symbols, quotes, non-ASCII words) it
    answers [LErr OtherLiquidError] = "outside the modelled fragment", which
    the harness never generates. *)
Definition is_ws (c : N) : bool := (c =? 32) || (c =? 10) || (c =? 13) || (c =? 9).
Definition is_word_start (c : N) : bool :=
  ((97 <=? c) && (c <=? 122)) || ((65 <=? c) && (c <=? 90)) || (c =? 95).
Definition is_word_char (c : N) : bool :=
  is_word_start c || ((48 <=? c) && (c <=? 57)) || (c =? 45).

Fixpoint skip_ws (s : str) : str :=
  match s with c :: r => if is_ws c then skip_ws r else s | [] => [] end.

(** WORD: [[a-zA-Z_](?:[a-zA-Z0-9_]|-(?![}%]\}))*] (ASCII part; since 8ef966d a
    hyphen directly before a closing delimiter is not part of the word). *)
Definition closes_markup (r : str) : bool :=
  match r with
  | a :: b :: _ => ((a =? RBRACE) || (a =? 37)) && (b =? RBRACE)
  | _ => false
  end.

Fixpoint take_word (s : str) : str * str :=
  match s with
  | c :: r => if is_word_char c && negb ((c =? 45) && closes_markup r)
              then let '(w, rest) := take_word r in (c :: w, rest)
              else ([], s)
  | [] => ([], [])
  end.

Fixpoint sub_words (fuel : nat) (s : str) : res (list str * str) :=
  match fuel with
  | O => OutOfFuel
  | S fuel' =>
      let s1 := skip_ws s in
      match s1 with
      | [] => Ok ([], [])
      | c :: _ =>
          if is_word_start c then
            let '(w, rest) := take_word s1 in
            match rest with
            | d :: _ => if (d =? 46) || (d =? 91) then LErr OtherLiquidError None
                        else do x <- sub_words fuel' rest ;;
                             let '(ws, r) := x in Ok (w :: ws, r)
            | [] => Ok ([w], [])
            end
          else if (c =? RBRACE) then Ok ([], s1)
          else LErr OtherLiquidError None
      end
  end.

Definition sub_word_scanner (s : str) : res (list str * str) :=
  sub_words (S (List.length s)) s.
