(** Kernels/LRU.v — model of liquid2/utils/lru_cache.py (LRUCache).

    [LRUCache] wraps a [collections.OrderedDict]; the model keeps that
    dictionary as an association list, OLDEST FIRST (the iteration order of an
    OrderedDict), and transcribes each method:

      __getitem__ : value = self._cache[key]; self._cache.move_to_end(key)
      __setitem__ : try: move_to_end(key)
                    except KeyError:
                        if len(self._cache) >= self.capacity: popitem(last=False)
                    self._cache[key] = value
      __contains__, __len__, keys() (= reversed: most recent first)

    Model file: definitions only. Proofs are in Proofs/LRU_proofs.v. *)
From LQ Require Export Base.Str.

Section LRU.
Context {V : Type}.

Record lru := { cap : nat; od : list (str * V) }.

Definition lru_empty (c : nat) : lru := {| cap := c; od := [] |}.

(** OrderedDict.move_to_end(key) followed by reading / re-binding the key. *)
Definition od_move_to_end (k : str) (v : V) (l : list (str * V)) : list (str * V) :=
  remove_key k l ++ [(k, v)].

(** [__getitem__]: [None] models [KeyError]. *)
Definition lru_get (c : lru) (k : str) : option (V * lru) :=
  match assoc k (od c) with
  | Some v => Some (v, {| cap := cap c; od := od_move_to_end k v (od c) |})
  | None => None
  end.

(** [__setitem__]. *)
Definition lru_set (c : lru) (k : str) (v : V) : lru :=
  match assoc k (od c) with
  | Some _ =>
      (* move_to_end succeeds; the assignment then rebinds in place (at the end) *)
      {| cap := cap c; od := od_move_to_end k v (od c) |}
  | None =>
      let l := if Nat.leb (cap c) (length (od c)) then tl (od c) else od c in
      {| cap := cap c; od := l ++ [(k, v)] |}
  end.

(** Mutating the cached object itself (not a cache operation: the cache holds a
    reference, so a change to the object is visible through the cache). *)
Fixpoint od_mutate (k : str) (f : V -> V) (l : list (str * V)) : list (str * V) :=
  match l with
  | [] => []
  | (k', v) :: l' =>
      if str_eqb k k' then (k', f v) :: l' else (k', v) :: od_mutate k f l'
  end.

Definition lru_mutate (c : lru) (k : str) (f : V -> V) : lru :=
  {| cap := cap c; od := od_mutate k f (od c) |}.

Definition lru_contains (c : lru) (k : str) : bool :=
  match assoc k (od c) with Some _ => true | None => false end.

Definition lru_len (c : lru) : nat := length (od c).

(** [list(cache)] / [keys()]: most recently used first. *)
Definition lru_keys (c : lru) : list str := rev (keys (od c)).

(** * Reference specification: a recency list, most recent first.

    This is the "two-line" LRU: using a key moves it to the front; inserting
    keeps the [cap] most recent entries. *)
Definition spec_use (k : str) (v : V) (l : list (str * V)) : list (str * V) :=
  (k, v) :: remove_key k l.

Definition spec_get (l : list (str * V)) (k : str) : option (V * list (str * V)) :=
  match assoc k l with
  | Some v => Some (v, spec_use k v l)
  | None => None
  end.

Definition spec_set (capacity : nat) (l : list (str * V)) (k : str) (v : V) :=
  firstn capacity (spec_use k v l).

(** Abstraction function from the OrderedDict model to the recency list. *)
Definition lru_abs (c : lru) : list (str * V) := rev (od c).

End LRU.
Arguments lru V : clear implicits.
