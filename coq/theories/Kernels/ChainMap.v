(** Kernels/ChainMap.v — model of the variable-lookup chain of liquid2 (C10).

    Transcribed from
      liquid2/utils/chainmap.py:14-51   ReadOnlyChainMap
      liquid2/context.py:63-110          RenderContext.__init__ (the scope chain, root_globals)
      liquid2/context.py:112-119         RenderContext.assign
      liquid2/context.py:193-200         RenderContext.resolve (and the root lookup of get/get_async)
      liquid2/context.py:318-340         RenderContext.extend
      liquid2/context.py:342-393         RenderContext.copy (the non-block-scope branch, used by {% render %})
      liquid2/context.py:458-468         increment / decrement
      liquid2/context.py:471-491         BuiltIn
    (line numbers of /repo at commit 919a310, i.e. after the fix 0967af6 that
    made copy() chain the ROOT context's globals; __init__ as of 95ad23b, which
    keeps an empty global_data mapping instead of replacing it by a new dict)
      liquid2/template.py:50-66,78-89,104-136,172-178   Template.__init__, render, render_with_context, make_globals
      liquid2/environment.py:98,137-155,224-232         Environment.__init__ (globals), from_string, make_globals
      liquid2/loader.py:79-94            BaseLoader.load (matter -> overlay_data)

    Python mappings are mutable objects with identity, and the property is
    about *which* object a write lands in.  The model therefore keeps every
    dict in a STORE (a list of dicts, address = position; allocation appends)
    and the chain maps hold REFERENCES into the store.  An in-place update of
    a caller-supplied mapping would be a [write] at one of the caller's
    addresses; the theorems in Proofs/ChainMap_proofs.v show no operation does
    that.  Values stored under a key are opaque tokens ([Data d], for any
    type [D]): the model says nothing about what filters and tags do to the
    *inside* of a list or dict value (see design_notes/C10.md — that half of
    the property is decided by the executable tie alone).

    Model file: definitions only. *)
From LQ Require Export Base.Str.

Section ChainMap.
Context {D : Type}.

(** A value bound to a name: caller/template data (opaque), an [int] made by
    [increment]/[decrement], or what [BuiltIn.__getitem__] computes. *)
Inductive value :=
| Data (d : D)
| Int (z : Z)
| Now      (* datetime.datetime.now() *)
| Today.   (* datetime.date.today() *)

Definition dict := list (str * value).

(** * The store of dict objects *)
Definition addr := nat.
Definition store := list dict.

Definition read (s : store) (a : addr) : dict := nth a s [].

Fixpoint write (s : store) (a : addr) (d : dict) : store :=
  match s, a with
  | [], _ => []
  | _ :: s', O => d :: s'
  | x :: s', S a' => x :: write s' a' d
  end.

(** A new dict object ([{}], [dict(...)], [{**a, **b}]): a fresh address. *)
Definition alloc (s : store) (d : dict) : store * addr := (s ++ [d], length s).

(** [x or {}] for a dict [x]: an empty dict is falsy and replaced by a new one. *)
Definition or_empty (s : store) (a : addr) : store * addr :=
  match read s a with
  | [] => alloc s []
  | _ :: _ => (s, a)
  end.

(** [{**a, **b}] / [dict.update]: keys of [b] win, positions of [a] kept. *)
Definition dict_merge (a b : dict) : dict :=
  fold_left (fun acc kv => dict_set (fst kv) (snd kv) acc) b a.

(** * Mapping objects a chain can hold *)

(** A reference to a dict, the [builtin] singleton, or a (nested)
    [ReadOnlyChainMap].  Chain maps nested inside another chain are never
    pushed to or popped from after construction (template.py:174,
    context.py:377), so they are immutable trees of references. *)
Inductive mref :=
| RDict (a : addr)
| RBuiltin
| RChain (ms : list mref).

Definition s_now : str := [110; 111; 119]%N.
Definition s_today : str := [116; 111; 100; 97; 121]%N.

(** context.py:468-473  BuiltIn.__getitem__; [None] models [KeyError]. *)
Definition builtin_get (k : str) : option value :=
  if str_eqb k s_now then Some Now
  else if str_eqb k s_today then Some Today
  else None.

Fixpoint first_some {A} (l : list (option A)) : option A :=
  match l with
  | [] => None
  | Some v :: _ => Some v
  | None :: l' => first_some l'
  end.

(** [mapping[key]]; chainmap.py:20-26 for a chain:
      for mapping in self._maps:
          try: return mapping[key]
          except KeyError: pass
      raise KeyError(key)                                   [None] = KeyError *)
Fixpoint mget (s : store) (m : mref) (k : str) {struct m} : option value :=
  match m with
  | RDict a => assoc k (read s a)
  | RBuiltin => builtin_get k
  | RChain ms =>
      (fix go (l : list mref) : option value :=
         match l with
         | [] => None
         | m' :: l' =>
             match mget s m' k with
             | Some v => Some v
             | None => go l'
             end
         end) ms
  end.

(** [len(mapping)]; chainmap.py:31-32 sums the lengths, BuiltIn.__len__ = 2.
    (No longer used by [ctx_init] since 95ad23b; still tied to [len(chain)].) *)
Fixpoint mlen (s : store) (m : mref) {struct m} : nat :=
  match m with
  | RDict a => length (read s a)
  | RBuiltin => 2
  | RChain ms =>
      (fix go (l : list mref) : nat :=
         match l with
         | [] => 0
         | m' :: l' => mlen s m' + go l'
         end) ms
  end.

(** * ReadOnlyChainMap — [_maps] is a deque, front = head of the list *)
Definition chain := list mref.

Definition cm_getitem (s : store) (c : chain) (k : str) : option value :=
  mget s (RChain c) k.

(** chainmap.py:38-43 *)
Definition cm_get (s : store) (c : chain) (k : str) (default : option value) : option value :=
  match cm_getitem s c k with
  | Some v => Some v
  | None => default
  end.

Definition cm_size (c : chain) : nat := length c.                    (* :34-36 *)
Definition cm_push (c : chain) (m : mref) : chain := m :: c.         (* :45-47 appendleft *)
Definition cm_pop (c : chain) : res (mref * chain) :=                (* :49-51 popleft *)
  match c with
  | [] => PyExc IndexError
  | m :: c' => Ok (m, c')
  end.

(** * Environment / Template glue *)

(** environment.py:224-232
      if globals: return {**self.globals, **globals}
      return dict(self.globals)
    Always a NEW dict. *)
Definition env_make_globals (s : store) (eg tg : addr) : store * addr :=
  match read s tg with
  | [] => alloc s (read s eg)
  | _ :: _ => alloc s (dict_merge (read s eg) (read s tg))
  end.

(** template.py:84-87,172-178
      self.make_globals(dict( *args, **kwargs))
      -> ReadOnlyChainMap(render_args, self.overlay_data, self.global_data) *)
Definition template_make_globals (s : store) (global_data overlay args : addr) : store * mref :=
  let '(s1, ra) := alloc s (read s args) in
  (s1, RChain [RDict ra; RDict overlay; RDict global_data]).

(** builtin/loaders/mixins.py:_check_cache / _check_cache_async, on a cache hit
    with no render context (a second [get_template] of the same name):
      cached_template.global_data = env.make_globals(globals)
    The cached Template keeps its [overlay_data] (the loader's matter); a later
    [render( **args )] then builds [make_globals(dict(args))] from the NEW
    global_data.  [gd_old] (the global_data of the earlier fetch) is dropped. *)
Definition cache_hit_rebind (s : store) (eg tg2 : addr) (gd_old ov : addr) : store * (addr * addr) :=
  let '(s1, gd2) := env_make_globals s eg tg2 in
  (s1, (gd2, ov)).

Definition cache_hit_globals (s : store) (eg tg2 gd_old ov args : addr) : store * mref :=
  let '(s1, (gd2, ov')) := cache_hit_rebind s eg tg2 gd_old ov in
  template_make_globals s1 gd2 ov' args.

(** * RenderContext *)
Record state := {
  store_of : store;
  scope : chain;          (* self.scope *)
  locals_a : addr;        (* self.locals *)
  counters_a : addr;      (* self.counters *)
  globals_r : mref;       (* self.globals *)
  root_r : mref           (* self.root_globals *)
}.

Definition with_store (st : state) (s : store) : state :=
  {| store_of := s; scope := scope st; locals_a := locals_a st;
     counters_a := counters_a st; globals_r := globals_r st; root_r := root_r st |}.

Definition with_scope (st : state) (c : chain) : state :=
  {| store_of := store_of st; scope := c; locals_a := locals_a st;
     counters_a := counters_a st; globals_r := globals_r st; root_r := root_r st |}.

(** context.py:74-100 (after the fix 95ad23b)
      self.globals = global_data if global_data is not None else {}
      self.root_globals = parent.root_globals if parent else self.globals
      self.locals = {} ; self.counters = {}
      self.scope = ReadOnlyChainMap(self.locals, self.globals, builtin, self.counters)
    Every caller modelled here passes a mapping (Template.render passes
    make_globals(...), copy() passes a chain map), never None, so the mapping
    is kept as it is — also when it is empty, i.e. falsy.  [parent_root] is
    [Some parent.root_globals] when there is a parent. *)
Definition ctx_init (s : store) (g : mref) (parent_root : option mref) : state :=
  let '(s1, l) := alloc s [] in
  let '(s2, c) := alloc s1 [] in
  {| store_of := s2; scope := [RDict l; g; RBuiltin; RDict c];
     locals_a := l; counters_a := c; globals_r := g;
     root_r := match parent_root with Some r => r | None => g end |}.

(** context.py:186-193 resolve, and the root segment of get/get_async
    (:126-132): [self.scope[root]]; [None] = the Undefined result. *)
Definition st_lookup (st : state) (k : str) : option value :=
  cm_getitem (store_of st) (scope st) k.

(** context.py:105-107  self.locals[key] = val
    (the optional local-namespace limit, :108-112, is off by default and is
    checked *after* the write; it is outside this model). *)
Definition st_assign (st : state) (k : str) (v : value) : state :=
  with_store st (write (store_of st) (locals_a st)
                   (dict_set k v (read (store_of st) (locals_a st)))).

(** [self.counters.get(name, 0)] — counters only ever hold ints. *)
Definition counter_get (d : dict) (k : str) : Z :=
  match assoc k d with
  | Some (Int z) => z
  | _ => 0%Z
  end.

(** context.py:449-453 *)
Definition st_incr (st : state) (k : str) : state * Z :=
  let c := read (store_of st) (counters_a st) in
  let v := counter_get c k in
  (with_store st (write (store_of st) (counters_a st) (dict_set k (Int (v + 1)) c)), v).

(** context.py:455-459 *)
Definition st_decr (st : state) (k : str) : state * Z :=
  let c := read (store_of st) (counters_a st) in
  let v := (counter_get c k - 1)%Z in
  (with_store st (write (store_of st) (counters_a st) (dict_set k (Int v) c)), v).

(** [self.scope.push(dict(ns))]: the namespace is a dict the tag has just
    made (with_tag.py:53, for_tag.py:87, template.py:114, include_tag.py:84). *)
Definition st_push (st : state) (ns : dict) : state :=
  let '(s', a) := alloc (store_of st) ns in
  with_scope (with_store st s') (cm_push (scope st) (RDict a)).

(** context.py:342-393, [block_scope=False] branch (the {% render %} tag):
    a new context whose globals are ReadOnlyChainMap(namespace, self.root_globals)
    and whose parent is [self].
    (The copy-depth test is C06/C07 material and not modelled.) *)
Definition ctx_copy (st : state) (ns : dict) : state :=
  let '(s1, a) := alloc (store_of st) ns in
  ctx_init s1 (RChain [RDict a; root_r st]) (Some (root_r st)).

(** context.py copy(), [block_scope=True] branch (a {% block %} rendered through
    {% extends %}), the code AS IT IS (/repo 3880a38):
      ctx.globals  = ReadOnlyChainMap(namespace, self.scope)
      ctx.counters = self.counters                      (shared with the page)
      ctx.scope    = ReadOnlyChainMap(ctx.locals, ctx.globals, builtin, ctx.counters)
    The page's scope does not change while one of its blocks is rendered, so
    the nested reference to it is the immutable tree [RChain (scope st)].
    The block's own locals come FIRST: a variable assigned in the block
    shadows the for / tablerow / with bindings around the block tag and the
    block drop (known finding block-assign-shadows-enclosing-binding-through-
    extends; the repair proposed_fixes/C10/declined/0001 was declined). *)
Definition ctx_copy_block (st : state) (ns : dict) : state :=
  let '(s1, a) := alloc (store_of st) ns in
  let '(s2, l) := alloc s1 [] in
  let g := RChain [RDict a; RChain (scope st)] in
  {| store_of := s2;
     scope := [RDict l; g; RBuiltin; RDict (counters_a st)];
     locals_a := l; counters_a := counters_a st; globals_r := g; root_r := root_r st |}.

(** * Operations a render performs on the chain *)
Inductive op :=
| Lookup (k : str)                 (* context.resolve(k) / context.get([k]) *)
| Assign (k : str) (v : value)     (* {% assign %}, {% capture %} *)
| Incr (k : str)                   (* {% increment k %} *)
| Decr (k : str)                   (* {% decrement k %} *)
| Push (ns : dict)                 (* raw ReadOnlyChainMap.push *)
| Pop                              (* raw ReadOnlyChainMap.pop *)
| Extend (ns : dict) (body : list op).  (* with context.extend(ns): body *)

Inductive obs :=
| OLookup (k : str) (v : option value)
| OCount (z : Z).

(** [exec] returns the state even when an exception propagates: Python state
    changes made before a failure persist.
    context.py:311-333:
      if self.scope.size() > self.env.context_depth_limit: raise ContextDepthError
      self.scope.push(namespace)
      try: yield self
      finally: self.scope.pop() *)
Fixpoint exec (lim : nat) (o : op) (st : state) {struct o} : state * list obs * res unit :=
  match o with
  | Lookup k => (st, [OLookup k (st_lookup st k)], Ok tt)
  | Assign k v => (st_assign st k v, [], Ok tt)
  | Incr k => let '(st', z) := st_incr st k in (st', [OCount z], Ok tt)
  | Decr k => let '(st', z) := st_decr st k in (st', [OCount z], Ok tt)
  | Push ns => (st_push st ns, [], Ok tt)
  | Pop =>
      match cm_pop (scope st) with
      | Ok (_, c') => (with_scope st c', [], Ok tt)
      | _ => (st, [], PyExc IndexError)
      end
  | Extend ns body =>
      if Nat.ltb lim (cm_size (scope st))
      then (st, [], LErr ContextDepthError None)
      else
        let '(st2, tr, r) :=
          (fix go (l : list op) (st : state) {struct l} : state * list obs * res unit :=
             match l with
             | [] => (st, [], Ok tt)
             | o' :: l' =>
                 let '(st', tr, r) := exec lim o' st in
                 match r with
                 | Ok _ =>
                     let '(st'', tr', r') := go l' st' in
                     (st'', tr ++ tr', r')
                 | _ => (st', tr, r)
                 end
             end) body (st_push st ns) in
        match cm_pop (scope st2) with
        | Ok (_, c') => (with_scope st2 c', tr, r)
        | _ => (st2, tr, PyExc IndexError)   (* an exception in [finally] replaces the pending one *)
        end
  end.

Fixpoint exec_list (lim : nat) (l : list op) (st : state) {struct l} : state * list obs * res unit :=
  match l with
  | [] => (st, [], Ok tt)
  | o :: l' =>
      let '(st', tr, r) := exec lim o st in
      match r with
      | Ok _ =>
          let '(st'', tr', r') := exec_list lim l' st' in
          (st'', tr ++ tr', r')
      | _ => (st', tr, r)
      end
  end.

(** Operations that reach the chain only through [extend] — all a tag can do
    (no tag or filter calls scope.push/scope.pop itself). *)
Fixpoint scoped (o : op) : bool :=
  match o with
  | Push _ | Pop => false
  | Extend _ body =>
      (fix go (l : list op) : bool :=
         match l with [] => true | o' :: l' => scoped o' && go l' end) body
  | _ => true
  end.

(** Does the operation write name [k] (to locals or to the counters)? *)
Fixpoint writes (k : str) (o : op) : bool :=
  match o with
  | Assign k' _ | Incr k' | Decr k' => str_eqb k k'
  | Extend _ body =>
      (fix go (l : list op) : bool :=
         match l with [] => false | o' :: l' => writes k o' || go l' end) body
  | _ => false
  end.

(** * The whole construction, from the caller's four mappings *)

(** What the caller owns. [None] and [{}] are the same thing to every
    constructor below ([x or {}], [if globals:]), so a missing mapping is the
    empty one. *)
Record world := {
  w_eg : dict;       (* Environment(globals=...) *)
  w_tg : dict;       (* from_string / get_template(globals=...) *)
  w_matter : dict;   (* TemplateSource.matter, from the loader *)
  w_args : dict      (* template.render( **args ) *)
}.

Definition caller_store (w : world) : store := [w_eg w; w_tg w; w_matter w; w_args w].
Definition n_caller : nat := 4.

(** Environment(globals=eg)           environment.py:98   self.globals = globals or {}
    env.from_string(globals=tg, overlay_data=matter)   :148-155 -> make_globals(tg)
    Template.__init__                 template.py:64-65   global_data or {} ; overlay_data or {}
    template.render( **args )         template.py:84-87   RenderContext(self, global_data=self.make_globals(dict(...))) *)
Definition build_base (w : world) : state :=
  let s0 := caller_store w in
  let '(s1, eg) := or_empty s0 0 in
  let '(s2, gd) := env_make_globals s1 eg 1 in
  let '(s3, gd') := or_empty s2 gd in
  let '(s4, ov) := or_empty s3 2 in
  let '(s5, g) := template_make_globals s4 gd' ov 3 in
  ctx_init s5 g None.

(** template.py:104-136 render_with_context: [with context.extend(dict()): nodes]. *)
Definition render (lim : nat) (w : world) (prog : list op) : state * list obs * res unit :=
  exec lim (Extend [] prog) (build_base w).

(** A context whose eight layers hold arbitrary contents: the construction
    above, then locals / counters filled and block scopes pushed
    (l_blocks is innermost first). *)
Record layers := {
  l_blocks : list dict;
  l_locals : dict;
  l_counters : dict;
  l_world : world
}.

Definition build (L : layers) : state :=
  let st := build_base (l_world L) in
  let st := with_store st (write (write (store_of st) (locals_a st) (l_locals L))
                                 (counters_a st) (l_counters L)) in
  fold_right (fun ns st => st_push st ns) st (l_blocks L).

(** * Specification: eight layers, first one that has the name wins *)

Record astate := { a_blocks : list dict; a_locals : dict; a_counters : dict }.

Definition spec_lookup (w : world) (a : astate) (k : str) : option value :=
  first_some (map (assoc k) (a_blocks a) ++
              [assoc k (a_locals a);      (* template-local variable *)
               assoc k (w_args w);        (* render argument *)
               assoc k (w_matter w);      (* loader matter *)
               assoc k (w_tg w);          (* template global *)
               assoc k (w_eg w);          (* environment global *)
               builtin_get k;             (* now / today *)
               assoc k (a_counters a)]).  (* counter *)

(** The same operations on the specification state (no store, no references);
    [Push]/[Pop] are not given a meaning here ([scoped] excludes them). *)
Fixpoint spec_exec (lim : nat) (w : world) (o : op) (a : astate) {struct o}
  : astate * list obs * res unit :=
  match o with
  | Lookup k => (a, [OLookup k (spec_lookup w a k)], Ok tt)
  | Assign k v =>
      ({| a_blocks := a_blocks a; a_locals := dict_set k v (a_locals a);
          a_counters := a_counters a |}, [], Ok tt)
  | Incr k =>
      let v := counter_get (a_counters a) k in
      ({| a_blocks := a_blocks a; a_locals := a_locals a;
          a_counters := dict_set k (Int (v + 1)) (a_counters a) |}, [OCount v], Ok tt)
  | Decr k =>
      let v := (counter_get (a_counters a) k - 1)%Z in
      ({| a_blocks := a_blocks a; a_locals := a_locals a;
          a_counters := dict_set k (Int v) (a_counters a) |}, [OCount v], Ok tt)
  | Push _ | Pop => (a, [], Ok tt)
  | Extend ns body =>
      if Nat.ltb lim (length (a_blocks a) + 4)
      then (a, [], LErr ContextDepthError None)
      else
        let '(a2, tr, r) :=
          (fix go (l : list op) (a : astate) {struct l} : astate * list obs * res unit :=
             match l with
             | [] => (a, [], Ok tt)
             | o' :: l' =>
                 let '(a', tr, r) := spec_exec lim w o' a in
                 match r with
                 | Ok _ =>
                     let '(a'', tr', r') := go l' a' in
                     (a'', tr ++ tr', r')
                 | _ => (a', tr, r)
                 end
             end) body
            {| a_blocks := ns :: a_blocks a; a_locals := a_locals a; a_counters := a_counters a |} in
        ({| a_blocks := tl (a_blocks a2); a_locals := a_locals a2; a_counters := a_counters a2 |}, tr, r)
  end.

Fixpoint spec_exec_list (lim : nat) (w : world) (l : list op) (a : astate) {struct l}
  : astate * list obs * res unit :=
  match l with
  | [] => (a, [], Ok tt)
  | o :: l' =>
      let '(a', tr, r) := spec_exec lim w o a in
      match r with
      | Ok _ =>
          let '(a'', tr', r') := spec_exec_list lim w l' a' in
          (a'', tr ++ tr', r')
      | _ => (a', tr, r)
      end
  end.

Definition spec_render (lim : nat) (w : world) (prog : list op) : astate * list obs * res unit :=
  spec_exec lim w (Extend [] prog) {| a_blocks := []; a_locals := []; a_counters := [] |}.

End ChainMap.

(** Projections of an execution result [(state, trace, status)]. *)
Definition state_of {S T R : Type} (x : S * T * R) : S := fst (fst x).
Definition trace_of {S T R : Type} (x : S * T * R) : T := snd (fst x).
Definition status_of {S T R : Type} (x : S * T * R) : R := snd x.

Arguments value : clear implicits.
Arguments dict : clear implicits.
Arguments store : clear implicits.
Arguments state : clear implicits.
Arguments world : clear implicits.
Arguments layers : clear implicits.
Arguments astate : clear implicits.
Arguments op : clear implicits.
Arguments obs : clear implicits.

(** * Boolean equalities and observation helpers for the correspondence runner
      (values are numbered tokens there: [D := N]). *)
Definition value_eqb (a b : value N) : bool :=
  match a, b with
  | Data x, Data y => N.eqb x y
  | Int x, Int y => Z.eqb x y
  | Now, Now | Today, Today => true
  | _, _ => false
  end.

Definition dict_eqb : dict N -> dict N -> bool :=
  list_eqb (prod_eqb str_eqb value_eqb).

Definition obs_eqb (a b : obs N) : bool :=
  match a, b with
  | OLookup k v, OLookup k' v' => str_eqb k k' && option_eqb value_eqb v v'
  | OCount z, OCount z' => Z.eqb z z'
  | _, _ => false
  end.

(** What the harness can see of a context after a run: the trace, the error
    class, scope.size(), the contents of every map of the scope chain that is
    a plain dict (front to back), locals, counters, and the caller's four
    mappings. *)
Definition status_code (r : res unit) : N :=
  match r with
  | Ok _ => 0
  | LErr ContextDepthError _ => 1
  | PyExc IndexError => 2
  | _ => 3
  end%N.

Fixpoint scope_dicts (s : store N) (c : list mref) : list (option (dict N)) :=
  match c with
  | [] => []
  | RDict a :: c' => Some (read s a) :: scope_dicts s c'
  | _ :: c' => None :: scope_dicts s c'
  end.

Definition observe (x : state N * list (obs N) * res unit)
  : list (obs N) * N * (nat * list (option (dict N))) * (dict N * dict N) * list (dict N) :=
  let '(st, tr, r) := x in
  (tr, status_code r,
   (cm_size (scope st), scope_dicts (store_of st) (scope st)),
   (read (store_of st) (locals_a st), read (store_of st) (counters_a st)),
   firstn n_caller (store_of st)).

Definition observe_eqb
  (a b : list (obs N) * N * (nat * list (option (dict N))) * (dict N * dict N) * list (dict N)) : bool :=
  let '(tr, c, (n, sd), (l, cn), cs) := a in
  let '(tr', c', (n', sd'), (l', cn'), cs') := b in
  list_eqb obs_eqb tr tr' && N.eqb c c' && Nat.eqb n n'
  && list_eqb (option_eqb dict_eqb) sd sd'
  && dict_eqb l l' && dict_eqb cn cn' && list_eqb dict_eqb cs cs'.
