(** Kernels/Interleave.v — concurrent async renders as interleaved segments.

    An asyncio coroutine runs without interruption between two [await]s that
    actually suspend (async drop item access, loader.get_source_async,
    Template.is_up_to_date_async, a caller's own awaits).  A coroutine is
    therefore a list of ATOMIC SEGMENTS; a schedule is a [list nat] that says
    which coroutine runs its next segment.  asyncio's event loop is abstracted
    to exactly this (DESIGN §8).

    A segment is a function of the coroutine's PRIVATE state (its
    RenderContext, buffer, local variables: created per render by
    Template.render_async, template.py:93-104, and reachable from no other
    render) and of the SHARED state.  By the type of [segment] a coroutine
    cannot touch another coroutine's private state: that is the
    disjointness hypothesis, stated by construction.  The shared mutable state
    of liquid2 is the loader cache and the [global_data] attribute of cached
    Template objects (builtin/loaders/mixins.py:73-113; C14).

    Two instances follow: the caching loader of Kernels/CacheLoader.v, and a
    small model of the one cached Template object per cache key whose
    [global_data] every load re-binds (mixins.py:92-95).

    Model file: definitions only.  Proofs: Proofs/Interleave_proofs.v. *)
From LQ Require Export Base.Str Kernels.LRU Kernels.CacheLoader.

Section Interleave.
  Context {P S : Type}.

  Definition segment := P -> S -> P * S.

  Record coroutine := { co_state : P; co_todo : list segment }.

  (** Run the next segment of one coroutine; a finished coroutine ignores
      being scheduled. *)
  Definition step_co (c : coroutine) (sh : S) : coroutine * S :=
    match co_todo c with
    | [] => (c, sh)
    | seg :: rest =>
        let '(p', sh') := seg (co_state c) sh in
        ({| co_state := p'; co_todo := rest |}, sh')
    end.

  Fixpoint step_nth (i : nat) (cs : list coroutine) (sh : S) : list coroutine * S :=
    match cs, i with
    | [], _ => ([], sh)
    | c :: cs', O => let '(c', sh') := step_co c sh in (c' :: cs', sh')
    | c :: cs', Datatypes.S j => let '(cs'', sh') := step_nth j cs' sh in (c :: cs'', sh')
    end.

  Fixpoint run (sched : list nat) (cs : list coroutine) (sh : S) : list coroutine * S :=
    match sched with
    | [] => (cs, sh)
    | i :: sched' => let '(cs', sh') := step_nth i cs sh in run sched' cs' sh'
    end.

  Definition co_done (c : coroutine) : bool :=
    match co_todo c with [] => true | _ => false end.
  Definition finished (cs : list coroutine) : bool := forallb co_done cs.

  Definition results (r : list coroutine * S) : list P := map co_state (fst r).

  (** The coroutine run on its own, from the same shared state. *)
  Fixpoint run_segments (segs : list segment) (p : P) (sh : S) : P * S :=
    match segs with
    | [] => (p, sh)
    | seg :: segs' => let '(p', sh') := seg p sh in run_segments segs' p' sh'
    end.
  Definition run_alone (sh : S) (c : coroutine) : P :=
    fst (run_segments (co_todo c) (co_state c) sh).

  (** The shared state behaves transparently towards a segment, relative to
      an invariant [inv] of the shared state: the segment keeps the invariant
      and what it hands to its own render does not depend on which
      invariant-satisfying shared state it ran against. *)
  Definition transparent_seg (inv : S -> Prop) (seg : segment) : Prop :=
    (forall p s, inv s -> inv (snd (seg p s))) /\
    (forall p s1 s2, inv s1 -> inv s2 -> fst (seg p s1) = fst (seg p s2)).
  Definition transparent_co (inv : S -> Prop) (c : coroutine) : Prop :=
    Forall (transparent_seg inv) (co_todo c).
End Interleave.
Arguments segment : clear implicits.
Arguments coroutine : clear implicits.

(** * Instance 1: renders that load templates through the caching loader.
    A segment is one [get_template(_async)] call on the loader of
    Kernels/CacheLoader.v; the render records what it got (content, globals
    bound at that moment).  Sources are not modified while the renders run. *)
Definition load_seg (c : cfg) (name : str) (ns : option str) (g : N) (a : bool)
  : segment (list obs) st :=
  fun p s => let '(o, s') := cached_load c s name ns g a true in (p ++ [o], s').

Record load_call := { lc_name : str; lc_ns : option str; lc_g : N; lc_async : bool }.

Definition loader_coroutine (c : cfg) (calls : list load_call) : coroutine (list obs) st :=
  {| co_state := [];
     co_todo := map (fun l => load_seg c (lc_name l) (lc_ns l) (lc_g l) (lc_async l)) calls |}.

(** * Instance 2: the cached Template object is shared and re-bound.
    One object per cache key, no eviction, no reload.  [RLoad k g]:
    [t = await env.get_template_async(k, globals=g)] binds [g] on the shared
    object (and remembers that it holds it).  [RYield]: any other await of
    the caller.  [RRender k g]: [await t.render_async()] for the template
    loaded under [k] with [g]: Template.render_async reads
    [self.global_data] when it starts (template.py:98-101), i.e. whatever was
    bound last. *)
Inductive rop := RLoad (k : str) (g : N) | RYield | RRender (k : str) (g : N).

Definition rseg (o : rop) : segment (list (str * N)) (list (str * N)) :=
  match o with
  | RLoad k g => fun p s => (p, dict_set k g s)
  | RYield => fun p s => (p, s)
  | RRender k g => fun p s =>
      (p ++ [(k, match assoc k s with Some g' => g' | None => g end)], s)
  end.

Definition rcoroutine (ops : list rop) : coroutine (list (str * N)) (list (str * N)) :=
  {| co_state := []; co_todo := map rseg ops |}.

(** Every load and every held render of key [k], in every coroutine, uses the
    globals [G k]: no two coroutines hold the same cached template with
    different globals. *)
Definition rop_agrees (G : str -> N) (o : rop) : Prop :=
  match o with
  | RLoad k g => g = G k
  | RRender k g => g = G k
  | RYield => True
  end.

(** Boolean equality for the correspondence runner. *)
Definition rresults_eqb (a b : list (list (str * N))) : bool :=
  list_eqb (list_eqb (prod_eqb str_eqb N.eqb)) a b.
