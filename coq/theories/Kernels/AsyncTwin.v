(** Kernels/AsyncTwin.v — the sync / async method pairs of liquid2 whose bodies
    DIFFER TEXTUALLY after normalisation (harness/c03_twins.py strips [await],
    [async], renames [*_async] callees, drops annotations and docstrings).

    Every pair listed by that script as "differs" is transcribed here twice —
    the sync body and the async body — over a small abstract domain that is
    sufficient to express the difference.  Pairs that are structurally equal
    after normalisation are not modelled: for them async = sync is the
    normalisation itself (the script re-checks it on every run).

    Python exceptions are values of [res] (Base/Str.v).  Expression evaluation
    is a function of the render state that returns no new state: evaluating a
    Liquid expression does not assign (only tags do), and drops are assumed
    pure (see [coherent] below) — this is the [pure_drops] premise of
    DESIGN §7 C03.

    Model file: definitions only.  Proofs: Proofs/AsyncTwin_proofs.v. *)
From LQ Require Export Base.Str.

Definition ch_slash : N := 47%N.
Definition ch_dot : N := 46%N.
Definition s_continue : str := [99;111;110;116;105;110;117;101]%N.  (* "continue" *)
Definition s_colon_sp : str := [58;32]%N.                            (* ": " *)
Definition s_size : str := [115;105;122;101]%N.
Definition s_first : str := [102;105;114;115;116]%N.
Definition s_last : str := [108;97;115;116]%N.

Definition is_nil {A} (l : list A) : bool := match l with [] => true | _ => false end.

(** * 1. Base-class delegation
      ast.py:58-70   Node.render_to_output_async   = return self.render_to_output(context, buffer)
      ast.py:81-98   Node.children_async           = return self.children(...)
      expression.py:24-30 Expression.evaluate_async = return self.evaluate(context)
      loader.py:25-56 BaseLoader.get_source_async   = return self.get_source(...)
    The sync half is abstract (or returns []); the async half calls whatever
    the subclass defined as the sync half.  A class that overrides only the
    sync half therefore has async = sync. *)
Section Delegate.
  Context {A B : Type}.
  Variable override : A -> res B.        (* the subclass's sync method *)
  Definition delegate_sync (x : A) : res B := override x.
  Definition delegate_async (x : A) : res B := override x.   (* return self.m(x) *)
End Delegate.

(** * 2. A generator that is drained by its consumer vs a list comprehension
      ast.py:160/171 (sum), expressions.py:398-409 (str.join),
      include_tag.py:83/128, render_tag.py:91/157, with_tag.py (dict).
    The sync twin hands a generator to [sum]/[dict]/[join], which interleaves
    "compute next element" with "consume it"; the async twin builds the whole
    list first.  [f] computes an element (may raise), [g] is the consumer's
    total step.  The normaliser of c03_twins.py treats the two as equal; this
    is the model that justifies that rule. *)
Section Drain.
  Context {A B C : Type}.
  Variable f : A -> res B.
  Variable g : C -> B -> C.
  Fixpoint drain_lazy (acc : C) (xs : list A) : res C :=
    match xs with
    | [] => Ok acc
    | x :: xs' => do b <- f x ;; drain_lazy (g acc b) xs'
    end.
  Fixpoint collect (xs : list A) : res (list B) :=
    match xs with
    | [] => Ok []
    | x :: xs' => do b <- f x ;; do l <- collect xs' ;; Ok (b :: l)
    end.
  Definition drain_eager (acc : C) (xs : list A) : res C :=
    do l <- collect xs ;; Ok (fold_left g l acc).
End Drain.

(** * 3. liquid2/__init__.py render / render_async: a let-binding
      render:        return ENV.from_string(source).render(args)
      render_async:  template = ENV.from_string(source); return await template.render_async(args) *)
Section TopLevel.
  Context {Src T Out : Type}.
  Variable from_string : Src -> res T.
  Variable render_t : T -> res Out.
  Definition toplevel_render (s : Src) : res Out := do t <- from_string s ;; render_t t.
  Definition toplevel_render_async (s : Src) : res Out :=
    do template <- from_string s ;; let t := template in render_t t.
End TopLevel.

(** * 4. Filter.evaluate / evaluate_async (expressions.py:843-864)
    Identical except for the message of the LiquidTypeError that wraps a
    TypeError of the filter callable: [str(err)] vs [f"{self.name}: {err}"].
    Errors carry their message here so that the difference is expressible;
    [observe] projects to the property's observable (class, token index). *)
Inductive fexc :=
| FTypeError (msg : str)                       (* Python TypeError - and, since /repo 8585e2b, ValueError or
                                                  ArithmeticError - from the callable: converted alike *)
| FLiquidTypeError (msg : str) (tok : option Z)
| FOtherLiquid (c : lclass) (tok : option Z)
| FPy (k : pykind).

Inductive fout (V : Type) := FRet (v : V) | FRaise (e : fexc).
Arguments FRet {V} v.
Arguments FRaise {V} e.

Inductive mres (V : Type) :=
| MOk (v : V)
| MLErr (c : lclass) (msg : str) (tok : option Z)
| MPy (k : pykind).
Arguments MOk {V} v.
Arguments MLErr {V} c msg tok.
Arguments MPy {V} k.

Definition observe {V} (r : mres V) : res V :=
  match r with MOk v => Ok v | MLErr c _ t => LErr c t | MPy k => PyExc k end.

Definition filter_evaluate {V} (name : str) (tok : Z) (call : fout V) : mres V :=
  match call with
  | FRet v => MOk v
  | FRaise (FTypeError m) => MLErr LiquidTypeError m (Some tok)
  | FRaise (FLiquidTypeError m _) => MLErr LiquidTypeError m (Some tok)   (* err.token = self.token *)
  | FRaise (FOtherLiquid c t) => MLErr c [] t
  | FRaise (FPy k) => MPy k
  end.

Definition filter_evaluate_async {V} (name : str) (tok : Z) (call : fout V) : mres V :=
  match call with
  | FRet v => MOk v
  | FRaise (FTypeError m) => MLErr LiquidTypeError m (Some tok)   (* same message as the sync twin since /repo f444606 *)
  | FRaise (FLiquidTypeError m _) => MLErr LiquidTypeError m (Some tok)
  | FRaise (FOtherLiquid c t) => MLErr c [] t
  | FRaise (FPy k) => MPy k
  end.

(** * 5. LoopExpression.evaluate / evaluate_async (expressions.py:1678-1721)
    The twins differ in how a string-literal offset is read: the sync twin
    takes [StringLiteral.value] by pattern matching, the async twin calls
    [self.offset.evaluate(context)], which wraps the value in Markup under
    auto-escape (expressions.py:220-223).  Markup is a str subclass:
    comparison with "continue" and int() see the same text.  The rest
    (_to_iter, limit, _slice with the stopindex of offset:continue) is common
    code and is transcribed once. *)
Inductive offset_expr :=
| OffNone                      (* no offset argument *)
| OffStr (s : str) (tok : Z)   (* StringLiteral: offset:continue, offset:'2' *)
| OffVal (v : res Z) (tok : Z) (* any other expression, already evaluated; _to_int applied *).

Inductive offset_val := OvNone | OvContinue | OvInt (z : Z).

(** int(s) for the decimal strings the tie generates: [+-]?[0-9]+ .  Anything
    else is the ValueError that _to_int turns into LiquidTypeError. *)
Definition is_digit (c : N) : bool := (48 <=? c)%N && (c <=? 57)%N.
Fixpoint digits_val (acc : Z) (s : str) : option Z :=
  match s with
  | [] => Some acc
  | c :: s' => if is_digit c then digits_val (acc * 10 + Z.of_N (c - 48))%Z s' else None
  end.
Definition parse_int (s : str) : option Z :=
  match s with
  | [] => None
  | 45%N :: (_ :: _) as d => option_map Z.opp (digits_val 0%Z d)
  | 43%N :: (_ :: _) as d => digits_val 0%Z d
  | _ => digits_val 0%Z s
  end.
Definition to_int_str (s : str) (tok : Z) : res Z :=
  match parse_int s with Some z => Ok z | None => LErr LiquidTypeError (Some tok) end.

(** A str that may be wrapped in Markup. *)
Definition mstr := (bool * str)%type.
Definition strlit_evaluate (auto_escape : bool) (s : str) : mstr := (auto_escape, s).
Definition mstr_ne (a : mstr) (b : str) : bool := negb (str_eqb (snd a) b).
Definition to_int_mstr (a : mstr) (tok : Z) : res Z := to_int_str (snd a) tok.

Definition loop_offset (o : offset_expr) : res offset_val :=
  match o with
  | OffStr value token =>                           (* case StringLiteral(value=value, token=token) *)
      if negb (str_eqb value s_continue) then
        do z <- to_int_str value token ;; Ok (OvInt z)
      else Ok OvContinue
  | OffNone => Ok OvNone                            (* case None *)
  | OffVal v token => do z <- v ;; Ok (OvInt z)     (* case _offset *)
  end.

Definition loop_offset_async (auto_escape : bool) (o : offset_expr) : res offset_val :=
  match o with
  | OffNone => Ok OvNone                            (* if self.offset is None *)
  | OffStr value token =>                           (* elif isinstance(self.offset, StringLiteral) *)
      let offset := strlit_evaluate auto_escape value in
      if mstr_ne offset s_continue then
        do z <- to_int_mstr offset token ;; Ok (OvInt z)
      else Ok OvContinue
  | OffVal v token => do z <- v ;; Ok (OvInt z)
  end.

Record loop_in := {
  li_items : res (list Z);        (* _to_iter(iterable.evaluate()) or its LiquidTypeError *)
  li_limit : option (res Z);      (* None, or _to_int(limit.evaluate()) *)
  li_offset : offset_expr;
  li_reversed : bool;
  li_stopindex : Z;               (* context.stopindex(key) before the call (0 if unset) *)
  li_auto_escape : bool
}.

Record loop_out := { lo_items : list Z; lo_length : Z; lo_stopindex : Z }.

Definition slice_list (l : list Z) (start stop : Z) : list Z :=
  firstn (Z.to_nat (stop - start)) (skipn (Z.to_nat start) l).

(** LoopExpression._slice (expressions.py:1647-1687).  After the early return
    a limit is clamped to >= 0 and an integer offset to [0, length] (commit
    c5a60dd); the stop index read for offset:continue is not clamped, so the
    islice ValueError for a negative index stays reachable only through it. *)
Definition loop_slice (it : list Z) (rev_ : bool) (stopindex : Z)
  (limit : option Z) (offset : offset_val) : res loop_out :=
  let length := Z.of_nat (List.length it) in
  match limit, offset with
  | None, OvNone =>
      Ok {| lo_items := if rev_ then rev it else it; lo_length := length; lo_stopindex := length |}
  | _, _ =>
      let limit := option_map (fun l => Z.max l 0) limit in
      let offset := match offset with
                    | OvInt z => OvInt (Z.min (Z.max z 0) length)
                    | o => o
                    end in
      let '(off, length1) :=
        match offset with
        | OvContinue => (Some stopindex, Z.max (length - stopindex) 0)
        | OvInt z => (Some z, Z.max (length - z) 0)
        | OvNone => (None, length)
        end in
      let length2 := match limit with Some l => Z.min length1 l | None => length1 end in
      let stop := match off with
                  | Some o => if Z.eqb o 0 then length2 else (o + length2)%Z
                  | None => length2 end in
      let start := match off with Some o => o | None => 0%Z end in
      if (start <? 0)%Z || (stop <? 0)%Z then PyExc ValueError
      else
        let sl := slice_list it start stop in
        Ok {| lo_items := if rev_ then rev sl else sl; lo_length := length2; lo_stopindex := stop |}
  end.

Definition opt_res {A} (o : option (res A)) : res (option A) :=
  match o with None => Ok None | Some r => do a <- r ;; Ok (Some a) end.

Definition loop_evaluate (i : loop_in) : res loop_out :=
  do it <- li_items i ;;
  do limit <- opt_res (li_limit i) ;;
  do offset <- loop_offset (li_offset i) ;;
  loop_slice it (li_reversed i) (li_stopindex i) limit offset.

Definition loop_evaluate_async (i : loop_in) : res loop_out :=
  do it <- li_items i ;;
  do limit <- opt_res (li_limit i) ;;
  do offset <- loop_offset_async (li_auto_escape i) (li_offset i) ;;
  loop_slice it (li_reversed i) (li_stopindex i) limit offset.

(** * 6. _AnyExpression.evaluate / evaluate_async (case_tag.py:229-239)
      sync:  left = ...; return any(_eq(left, right.evaluate(context)) for right in self.expressions)
      async: left = ...; for expr in ...: right = await ...; if _eq(left, right): return True
             return False
    [any] pulls a lazy generator and stops at the first true element. *)
Section AnyExpr.
  Context {E V : Type}.
  Variable eval : E -> res V.
  Variable eqv : V -> V -> bool.

  (** builtins.any over a generator: elements are thunks forced on demand *)
  Fixpoint py_any (gen : list (unit -> res bool)) : res bool :=
    match gen with
    | [] => Ok false
    | th :: gen' => do b <- th tt ;; if b then Ok true else py_any gen'
    end.

  Definition any_evaluate (left : E) (exprs : list E) : res bool :=
    do l <- eval left ;;
    py_any (map (fun rexpr (_ : unit) => do r <- eval rexpr ;; Ok (eqv l r)) exprs).

  Fixpoint any_loop (l : V) (exprs : list E) : res bool :=
    match exprs with
    | [] => Ok false
    | expr :: exprs' =>
        do rv <- eval expr ;;
        if eqv l rv then Ok true else any_loop l exprs'
    end.

  Definition any_evaluate_async (left : E) (exprs : list E) : res bool :=
    do l <- eval left ;; any_loop l exprs.
End AnyExpr.

(** * 7. children / children_async of IncludeNode, RenderNode, ExtendsNode
      (include_tag.py:160-193, render_tag.py:193-226, extends_tag.py)
    The sync twin is a generator function ([yield from template.nodes]):
    calling it runs nothing; the caller's [for child in node.children(...)]
    (static_analysis.py _visit) runs the body at the first [next].  The async
    twin runs the body at the call and returns the list (or [[]]). *)
Section Children.
  Context {Nd R : Type}.
  Variable body : bool -> res (list Nd).     (* include_partials -> load the partial, its nodes *)
  Variable visit : list Nd -> res R.         (* the for-loop of _visit over the children *)

  Inductive iterable := Gen (th : unit -> res (list Nd)) | Lst (l : list Nd).

  Definition children (include_partials : bool) : res iterable :=
    Ok (Gen (fun _ => if include_partials then body true else Ok [])).
  Definition children_async (include_partials : bool) : res iterable :=
    if include_partials then do l <- body true ;; Ok (Lst l) else Ok (Lst []).

  Definition for_each (it : res iterable) : res R :=
    do i <- it ;;
    match i with Gen th => do l <- th tt ;; visit l | Lst l => visit l end.

  Definition visit_children (ip : bool) : res R := for_each (children ip).
  Definition visit_children_async (ip : bool) : res R := for_each (children_async ip).
End Children.

(** * 8. IfNode.render_to_output / _async (if_tag.py:70-99) with
         Node.render (ast.py:46-56) and ConditionalBlockNode (ast.py:206-219)
    For an [elsif] whose condition holds, the sync twin renders
    [alternative.block]; the async twin re-enters the ConditionalBlockNode
    ([alternative.render_async]), which checks the disabled tags for the
    elsif token once more and EVALUATES THE CONDITION A SECOND TIME before
    rendering the same block.  The BlockNode of an alternative carries the
    same elsif token as its ConditionalBlockNode (if_tag.py:154-163). *)
Section IfNode.
  Context {St Cnd Blk : Type}.
  Variable eval : St -> Cnd -> res bool.             (* pure: returns no state *)
  Variable block_rto : St -> Blk -> res (str * St).  (* BlockNode.render_to_output *)
  Variable disabled : St -> list str.                (* context.disabled_tags *)

  Record tagged_block := { tb_tag : str; tb_pos : Z; tb_block : Blk }.
  Record alternative := { alt_cond : Cnd; alt_blk : tagged_block }.

  (** Node.render: if context.disabled_tags: raise_for_disabled; render_to_output *)
  Definition node_render (st : St) (tag : str) (pos : Z)
    (rto : St -> res (str * St)) : res (str * St) :=
    if is_nil (disabled st) then rto st
    else if mem_str tag (disabled st) then LErr DisabledTagError (Some pos)
    else rto st.

  Definition block_render (st : St) (b : tagged_block) : res (str * St) :=
    node_render st (tb_tag b) (tb_pos b) (fun st' => block_rto st' (tb_block b)).

  (** ConditionalBlockNode.render_to_output *)
  Definition cond_block_rto (st : St) (a : alternative) : res (str * St) :=
    do b <- eval st (alt_cond a) ;;
    if b then block_render st (alt_blk a) else Ok ([], st).

  (** ConditionalBlockNode.render (token = the elsif token) *)
  Definition cond_block_render (st : St) (a : alternative) : res (str * St) :=
    node_render st (tb_tag (alt_blk a)) (tb_pos (alt_blk a)) (fun st' => cond_block_rto st' a).

  Fixpoint if_alts (st : St) (alts : list alternative) (default : option tagged_block)
    : res (str * St) :=
    match alts with
    | [] => match default with Some d => block_render st d | None => Ok ([], st) end
    | a :: alts' =>
        do b <- eval st (alt_cond a) ;;
        if b then block_render st (alt_blk a)          (* alternative.block.render *)
        else if_alts st alts' default
    end.

  Fixpoint if_alts_async (st : St) (alts : list alternative) (default : option tagged_block)
    : res (str * St) :=
    match alts with
    | [] => match default with Some d => block_render st d | None => Ok ([], st) end
    | a :: alts' =>
        do b <- eval st (alt_cond a) ;;
        if b then cond_block_render st a               (* alternative.render_async *)
        else if_alts_async st alts' default
    end.

  Definition if_rto (st : St) (cond : Cnd) (cons : tagged_block)
    (alts : list alternative) (default : option tagged_block) : res (str * St) :=
    do b <- eval st cond ;;
    if b then block_render st cons else if_alts st alts default.

  Definition if_rto_async (st : St) (cond : Cnd) (cons : tagged_block)
    (alts : list alternative) (default : option tagged_block) : res (str * St) :=
    do b <- eval st cond ;;
    if b then block_render st cons else if_alts_async st alts default.
End IfNode.
Arguments tagged_block : clear implicits.
Arguments alternative : clear implicits.

(** * 9. CallNode.render_to_output / _async (macro_tag.py:150-226)
      sync:  if isinstance(macro, Undefined): return buffer.write(str(macro))
      async: if is_undefined(macro): return ...;  assert isinstance(macro, Macro)
    [tag_namespace["macros"]] is written only by MacroNode.render_to_output
    (macro_tag.py:95-103), always with a Macro; the default of the lookup is
    an Undefined.  So a looked-up value is one of the two. *)
Section CallNode.
  Context {M R : Type}.
  Inductive macro_val := MvMacro (m : M) | MvUndefined (strict : bool).
  Definition isinstance_undefined (v : macro_val) : bool :=
    match v with MvUndefined _ => true | MvMacro _ => false end.
  Definition isinstance_macro (v : macro_val) : bool :=
    match v with MvMacro _ => true | MvUndefined _ => false end.
  (** undefined.py:200-202 *)
  Definition is_undefined (v : macro_val) : bool := isinstance_undefined v.

  Variable write_undefined : bool -> res R.   (* buffer.write(str(macro)); StrictUndefined raises *)
  Variable call_macro : M -> res R.           (* bind the arguments, render macro.block *)

  Definition call_rto (v : macro_val) : res R :=
    if isinstance_undefined v then
      match v with MvUndefined s => write_undefined s | MvMacro m => call_macro m end
    else match v with MvMacro m => call_macro m | MvUndefined s => write_undefined s end.

  Definition call_rto_async (v : macro_val) : res R :=
    if is_undefined v then
      match v with MvUndefined s => write_undefined s | MvMacro m => call_macro m end
    else if isinstance_macro v then
      match v with MvMacro m => call_macro m | MvUndefined s => write_undefined s end
    else PyExc AssertionError.
End CallNode.

(** * 10. RenderContext.get_item / get_item_async (context.py:199-264)
    The async twin reads through [obj.__getitem_async__] when the object has
    one.  [o_getitem k] is [obj[k]]; errors are KeyError / IndexError /
    TypeError or anything else. *)
Section GetItem.
  Context {V : Type}.
  Record pyobj := {
    o_getitem : str -> res V;
    o_getitem_async : option (str -> res V);
    o_len : option V;         (* isinstance(obj, Sized): len(obj) *)
    o_first_item : option V;  (* Mapping and non-empty: first (key, value) pair *)
    o_seq_first : option (res V);   (* isinstance(obj, Sequence): obj[0] *)
    o_seq_last : option (res V)     (* isinstance(obj, Sequence): obj[-1] *)
  }.

  Definition lookup_error (r : res V) : bool :=
    match r with
    | PyExc KeyError | PyExc IndexError | PyExc TypeError => true
    | _ => false
    end.

  Definition get_item_with (getter : str -> res V) (obj : pyobj) (key : str) : res V :=
    if str_eqb key s_size then
      let r := getter s_size in
      if lookup_error r then match o_len obj with Some n => Ok n | None => r end else r
    else if str_eqb key s_first then
      let r := getter s_first in
      if lookup_error r then
        match o_first_item obj with
        | Some p => Ok p
        | None => match o_seq_first obj with Some x => x | None => r end
        end
      else r
    else if str_eqb key s_last then
      let r := getter s_last in
      if lookup_error r then match o_seq_last obj with Some x => x | None => r end else r
    else getter key.

  Definition get_item (obj : pyobj) (key : str) : res V :=
    get_item_with (o_getitem obj) obj key.

  (** _get_item: if hasattr(obj, "__getitem_async__"): await obj.__getitem_async__(key) *)
  Definition get_item_async (obj : pyobj) (key : str) : res V :=
    get_item_with (match o_getitem_async obj with Some f => f | None => o_getitem obj end) obj key.

  (** The pure-drop premise: the two access paths of a drop agree. *)
  Definition coherent (obj : pyobj) : Prop :=
    forall f, o_getitem_async obj = Some f -> forall k, f k = o_getitem obj k.
End GetItem.
Arguments pyobj : clear implicits.

(** * 11. BaseLoader.load / load_async (loader.py:58-119) and the variable
          name bound by include / render ... with (include_tag.py:91,136;
          render_tag.py:108,174) *)

(** str.split(sep): always at least one piece *)
Fixpoint split_on (c : N) (s : str) : list str :=
  match s with
  | [] => [[]]
  | x :: s' =>
      if N.eqb x c then [] :: split_on c s'
      else match split_on c s' with
           | p :: ps => (x :: p) :: ps
           | [] => [[x]]
           end
  end.

(** pathlib.PurePosixPath(s).name (CPython 3.12 _parse_path: the parts are the
    pieces between "/" that are neither empty nor "."; the name is the last
    part, "" if there is none) *)
Definition path_part_ok (p : str) : bool :=
  negb (is_nil p) && negb (str_eqb p [ch_dot]).
Definition path_name (s : str) : str := last (filter path_part_ok (split_on ch_slash s)) [].

Record tsource := {
  ts_text : str; ts_full_name : str;
  ts_uptodate : option N;      (* identifies the callback; None = no callback *)
  ts_matter : N
}.
Record ttemplate := {
  tt_text : str; tt_name : str; tt_path : str;
  tt_globals : N; tt_overlay : N; tt_uptodate : option N
}.

Definition base_load (get_source : str -> res tsource) (name : str) (globals : N) : res ttemplate :=
  do s <- get_source name ;;
  let path := ts_full_name s in
  Ok {| tt_text := ts_text s; tt_name := path_name path; tt_path := path;
        tt_globals := globals; tt_overlay := ts_matter s;
        tt_uptodate := ts_uptodate s |}.          (* template.uptodate = uptodate *)

(** load_async AFTER proposed_fixes/C03/0001 *)
Definition base_load_async (get_source_async : str -> res tsource) (name : str) (globals : N)
  : res ttemplate :=
  do s <- get_source_async name ;;
  let path := ts_full_name s in
  Ok {| tt_text := ts_text s; tt_name := path_name path; tt_path := path;
        tt_globals := globals; tt_overlay := ts_matter s;
        tt_uptodate := ts_uptodate s |}.

(** load_async as it was on the unchanged tree (defect 9): name=name *)
Definition base_load_async_unfixed (get_source_async : str -> res tsource) (name : str)
  (globals : N) : res ttemplate :=
  do s <- get_source_async name ;;
  Ok {| tt_text := ts_text s; tt_name := name; tt_path := ts_full_name s;
        tt_globals := globals; tt_overlay := ts_matter s;
        tt_uptodate := ts_uptodate s |}.

(** key = self.alias or template.name.split(".")[0] *)
Definition with_key (alias : option str) (t : ttemplate) : str :=
  match alias with
  | Some a => a
  | None => hd [] (split_on ch_dot (tt_name t))
  end.

(** DictLoader.get_source (dict_loader.py:29-44): full name = requested name *)
Definition dict_get_source (templates : list (str * str)) (name : str) : res tsource :=
  match assoc name templates with
  | Some text => Ok {| ts_text := text; ts_full_name := name; ts_uptodate := None; ts_matter := 0 |}
  | None => LErr TemplateNotFoundError None
  end.

(** * 12. Template.is_up_to_date / is_up_to_date_async (template.py:190-216)
      sync:  uptodate = self.uptodate(); if not isinstance(uptodate, bool): return False
      async: if isinstance(uptodate, Awaitable): return await uptodate;  return uptodate
    What a callback returns: a bool, an awaitable of a bool (the coroutine
    flavour installed by FileSystemLoader.get_source_async), or some other
    object (only its truthiness matters to the caller's [not ...]). *)
Inductive uptodate_result := UBool (b : bool) | UAwaitable (b : bool) | UOther (truthy : bool).

Definition tpl_up_to_date (cb : option uptodate_result) : bool :=
  match cb with
  | None => true
  | Some (UBool b) => b
  | Some _ => false
  end.

Definition tpl_up_to_date_async (cb : option uptodate_result) : bool :=
  match cb with
  | None => true
  | Some (UAwaitable b) => b
  | Some (UBool b) => b
  | Some (UOther t) => t
  end.

(** * 13. run_in_executor (file_system_loader.py:96-117, package_loader.py:89-116)
    [await loop.run_in_executor(None, f, x)] is [f x] computed on a worker
    thread: same value, same exception.  Thread timing is outside the model;
    the await is a scheduling point of Kernels/Interleave.v. *)
Definition run_in_executor {A B} (f : A -> res B) (x : A) : res B := f x.

Section FsLoader.
  Variable resolve_path : str -> res str.
  Variable read : str -> res (str * N).          (* text, mtime *)
  Variable stat_mtime : str -> res N.            (* OSError when the file has gone *)

  (** a freshness callback is identified by (path, mtime); the flavour is
      [false] = _uptodate, [true] = _uptodate_async *)
  Record fs_source := { fs_text : str; fs_name : str; fs_cb : (str * N) * bool }.

  Definition fs_get_source (name : str) : res fs_source :=
    do p <- resolve_path name ;;
    do sm <- read p ;;
    Ok {| fs_text := fst sm; fs_name := p; fs_cb := ((p, snd sm), false) |}.

  Definition fs_get_source_async (name : str) : res fs_source :=
    do p <- run_in_executor resolve_path name ;;
    do sm <- run_in_executor read p ;;
    Ok {| fs_text := fst sm; fs_name := p; fs_cb := ((p, snd sm), true) |}.

  Definition fs_uptodate (p : str) (mtime : N) : res bool :=
    match stat_mtime p with
    | Ok m => Ok (N.eqb mtime m)
    | PyExc OSError => Ok false
    | LErr c t => LErr c t
    | PyExc k => PyExc k
    | OutOfFuel => OutOfFuel
    end.
  Definition fs_uptodate_async (p : str) (mtime : N) : res bool :=
    run_in_executor (fun pm => fs_uptodate (fst pm) (snd pm)) (p, mtime).

  (** Since /repo e2f7d6d the freshness callback is _is_current / _is_current_async:
      the name must still resolve to the path the template was read from (a file
      added to an earlier search path shadows it; the file may have gone), and
      then the modification time decides.  The async half runs the sync half in
      the default executor. *)
  Definition fs_is_current (name p : str) (mtime : N) : res bool :=
    match resolve_path name with
    | Ok q => if str_eqb q p then fs_uptodate p mtime else Ok false
    | LErr TemplateNotFoundError _ => Ok false
    | LErr c t => LErr c t
    | PyExc k => PyExc k
    | OutOfFuel => OutOfFuel
    end.
  Definition fs_is_current_async (name p : str) (mtime : N) : res bool :=
    run_in_executor (fun npm => fs_is_current (fst (fst npm)) (snd (fst npm)) (snd npm)) ((name, p), mtime).

  (** The same source up to the flavour of its callback. *)
  Definition fs_source_same (a b : fs_source) : Prop :=
    fs_text a = fs_text b /\ fs_name a = fs_name b /\ fst (fs_cb a) = fst (fs_cb b).
End FsLoader.

(** * Boolean equalities for the correspondence runner *)
Definition loop_out_eqb (a b : loop_out) : bool :=
  list_eqb Z.eqb (lo_items a) (lo_items b) && Z.eqb (lo_length a) (lo_length b)
  && Z.eqb (lo_stopindex a) (lo_stopindex b).

Definition ttemplate_eqb (a b : ttemplate) : bool :=
  str_eqb (tt_text a) (tt_text b) && str_eqb (tt_name a) (tt_name b)
  && str_eqb (tt_path a) (tt_path b) && N.eqb (tt_globals a) (tt_globals b)
  && N.eqb (tt_overlay a) (tt_overlay b) && option_eqb N.eqb (tt_uptodate a) (tt_uptodate b).

Definition out_state_eqb (a b : str * list str) : bool :=
  str_eqb (fst a) (fst b) && list_eqb str_eqb (snd a) (snd b).
