(** Kernels/Analysis.v — MODEL for C11 (static analysis vs. runtime usage).

    Part 1: abstract syntax of the modelled fragment (one constructor per
            Python node / expression class; tokens and spans are data).
    Part 2: the static analysis, transcribed from
              liquid2/static_analysis.py  (_analyze, _analyze_async,
                _extract_filters, _analyze_variables, _segments, _StaticScope,
                _VariableMap),
              liquid2/ast.py:81-113 and the children/expressions/
                template_scope/block_scope/partial_scope overrides of every
                tag in liquid2/builtin/tags/*.py,
              the children()/scope() overrides in liquid2/builtin/expressions.py.
    Part 3: a tracing interpreter for the same fragment (which root names are
            resolved through the context and whether the application's global
            mapping is consulted, which filters are applied, which tags are
            rendered); values are abstract, every data-dependent decision is
            read from an oracle (list of numbers).

    Definitions only; all recursion that is not structural uses explicit fuel. *)
From LQ Require Import Base.Str.
Local Open Scope list_scope.

(* ------------------------------------------------------------------ *)
(** * Part 1: syntax *)

Definition span := (Z * Z)%type.          (* token.start, token.stop *)
Definition ident := (str * span)%type.     (* builtin.expressions.Identifier: str + token *)

(** Expression classes of liquid2/builtin/expressions.py (+ case_tag._AnyExpression). *)
Inductive seg :=
| SName (s : str)
| SIdx (i : Z)
| SPath (p : expr)                         (* nested Path in brackets *)
with expr :=
| ELit                                     (* Null, Empty, Blank, Continue, Literal subclasses *)
| EPath (sp : span) (root : str) (segs : list seg)
| ERange (a b : expr)
| EArray (items : list expr)
| ETemplateString (parts : list expr)
| ELambda (params : list str) (body : expr)
| EFiltered (left : expr) (filters : list lfilter)
| ETernary (left : expr) (left_filters : list lfilter)   (* self.left: always a FilteredExpression *)
           (cond : expr) (alt : option expr)
           (filters : list lfilter) (tail : list lfilter)
| EBool (e : expr)                         (* BooleanExpression *)
| ENot (e : expr)
| EAnd (l r : expr)
| EOr (l r : expr)
| ECmp (right_first : bool) (l r : expr)   (* Eq Ne Le Ge Lt Contains | Gt In (evaluate right first) *)
| ELoop (id : str) (iterable : expr) (limit offset cols : option expr)
| EAny (items : list expr)   (* case_tag._AnyExpression; its `left` is the expression of the enclosing
                                case node (one shared object), see NCase *)
with lfilter :=
| Filter (name : str) (sp : span) (args : list expr).

Definition f_name (f : lfilter) := let 'Filter n _ _ := f in n.
Definition f_span (f : lfilter) := let 'Filter _ s _ := f in s.
Definition f_args (f : lfilter) := let 'Filter _ _ a := f in a.

(** node.token: only its kind, name and span matter (token.py). *)
Inductive token :=
| TTag (name : str) (sp : span)
| TLines (name : str) (sp : span)
| TRaw (sp : span)
| TOther.

Inductive node :=
| NContent (t : token)
| NComment (t : token)
| NRaw (t : token)
| NOutput (t : token) (e : expr)
| NEcho (t : token) (e : expr)
| NAssign (t : token) (name : ident) (e : expr)
| NCapture (t : token) (name : ident) (block : node)
| NIf (t : token) (cond : expr) (cons : node) (alts : list node) (default : option node)
| NUnless (t : token) (cond : expr) (cons : node) (alts : list node) (default : option node)
| NCase (t : token) (e : expr) (whens : list node) (default : option node)
| NFor (t : token) (loop : expr) (block : node) (default : option node)
| NWith (t : token) (args : list (str * expr)) (block : node)
| NIncrement (t : token) (name : ident)
| NDecrement (t : token) (name : ident)
| NCycle (t : token) (items : list expr)
| NMacro (t : token) (name : str) (params : list (str * option expr)) (block : node)
| NCall (t : token) (name : str) (args : list expr) (kwargs : list (str * expr))
| NInclude (t : token) (name : str) (loop : bool) (var : option expr) (alias : option str)
           (args : list (str * expr))
| NRender (t : token) (name : str) (loop : bool) (var : option expr) (alias : option str)
          (args : list (str * expr))
| NExtends (t : token) (name : str)
| NBlock (t : token) (name : str) (required : bool) (block : node)   (* extends_tag.BlockNode *)
| NLiquid (t : token) (block : node)
| WBlock (t : token) (nodes : list node)          (* ast.BlockNode *)
| WCond (t : token) (e : expr) (block : node)     (* ast.ConditionalBlockNode *)
| WMulti (t : token) (e : expr) (block : node)    (* case_tag.MultiExpressionBlockNode *)
| NTablerow (t : token) (loop : expr) (block : node)    (* shopify/tags/tablerow_tag.TablerowNode *)
| WLoopBlock (t : token) (names : list str) (nodes : list node).   (* for_tag.LoopBlockNode: the per-item
     block of a for tag, a BlockNode that declares the loop variable and forloop in its block scope *)

Definition n_token (n : node) : token :=
  match n with
  | NContent t | NComment t | NRaw t | NOutput t _ | NEcho t _ | NAssign t _ _
  | NCapture t _ _ | NIf t _ _ _ _ | NUnless t _ _ _ _ | NCase t _ _ _ | NFor t _ _ _
  | NWith t _ _ | NIncrement t _ | NDecrement t _ | NCycle t _ | NMacro t _ _ _
  | NCall t _ _ _ | NInclude t _ _ _ _ _ | NRender t _ _ _ _ _ | NExtends t _
  | NBlock t _ _ _ | NLiquid t _ | WBlock t _ | WCond t _ _ | WMulti t _ _ | NTablerow t _ _ | WLoopBlock t _ _ => t
  end.

(** isinstance(node, (BlockNode, ConditionalBlockNode, MultiExpressionBlockNode)) *)
Definition is_wrapper (n : node) : bool :=
  match n with WBlock _ _ | WCond _ _ _ | WMulti _ _ _ | WLoopBlock _ _ _ => true | _ => false end.

Definition opt_list {A} (o : option A) : list A := match o with Some a => [a] | None => [] end.

(** The loader: template name -> nodes of the parsed template. *)
Definition loader := str -> option (list node).
Definition loader_of (l : list (str * list node)) : loader := fun n => assoc n l.

(* ------------------------------------------------------------------ *)
(** * Part 2: static analysis *)

(** ** Expression.children() / scope() per class (expressions.py) *)

Definition f_children (f : lfilter) : list expr := f_args f.         (* Filter.children :894 *)

Definition e_children (e : expr) : list expr :=
  match e with
  | ELit => []
  | EPath _ _ segs =>                                               (* Path.children :558 *)
      flat_map (fun s => match s with SPath p => [p] | _ => [] end) segs
  | ERange a b => [a; b]                                            (* :306 *)
  | EArray items => items                                           (* :335 *)
  | ETemplateString parts => parts                                  (* :411 *)
  | ELambda _ body => [body]                                        (* :437 *)
  | EFiltered l fs => l :: flat_map f_children fs                   (* :618 *)
  | ETernary l0 fs0 c alt fs tl =>                                 (* :763 — left.children(), NOT [left] *)
      (l0 :: flat_map f_children fs0)
      ++ [c] ++ opt_list alt ++ flat_map f_children fs ++ flat_map f_children tl
  | EBool e | ENot e => [e]                                         (* :1101 :1311 *)
  | EAnd l r | EOr l r | ECmp _ l r => [l; r]
  | ELoop _ it lim off cols => it :: opt_list lim ++ opt_list off ++ opt_list cols   (* :1723 *)
  | EAny items => items                                             (* case_tag.py:233 — not left *)
  end.

Definition e_scope (e : expr) : list str :=                         (* Expression.scope; Lambda :440 *)
  match e with ELambda ps _ => firstn 2 ps | _ => [] end.   (* self.params[:2]: what map() binds *)

(** ** Node methods per class *)

Definition kw_values (a : list (str * expr)) : list expr := map snd a.

(** str(name.value).split(".", 1)[0] *)
Fixpoint stem (s : str) : str :=
  match s with
  | [] => []
  | c :: s' => if N.eqb c 46 then [] else c :: stem s'
  end.

(** Run time: the key is template.name.split(".")[0], and BaseLoader.load names
    the template Path(full_name).name - the last path component of the name it
    was asked for (loader.py:83-87). So 'snippets/card.liquid' binds `card` at run
    time while partial_scope() declares 'snippets/card' (harmless: the declared
    name cannot be written as a variable, `card` is over-reported as a global). *)
Fixpoint basename_acc (acc s : str) : str :=
  match s with
  | [] => acc
  | c :: s' => if N.eqb c 47 then basename_acc [] s' else basename_acc (acc ++ [c]) s'
  end.
Definition rt_stem (name : str) : str := stem (basename_acc [] name).

Definition n_expressions (n : node) : list expr :=
  match n with
  | NOutput _ e | NEcho _ e | NAssign _ _ e => [e]
  | NIf _ c _ _ _ | NUnless _ c _ _ _ => [c]
  | NCase _ e _ _ => [e]
  | NFor _ l _ _ | NTablerow _ l _ => [l]
  | NWith _ args _ => kw_values args
  | NCycle _ items => items
  | NMacro _ _ ps _ => flat_map (fun p => opt_list (snd p)) ps      (* defaults that exist *)
  | NCall _ _ args kw => args ++ kw_values kw
  | NInclude _ _ _ var _ args | NRender _ _ _ var _ args =>
      ELit :: opt_list var ++ kw_values args                        (* name, var, args *)
  | NExtends _ _ => [ELit]
  | WCond _ e _ | WMulti _ e _ => [e]
  | _ => []
  end.

Definition n_template_scope (n : node) : list ident :=
  match n with
  | NAssign _ name _ | NCapture _ name _ | NIncrement _ name | NDecrement _ name => [name]
  | _ => []
  end.

Definition forloop_s : str := [102;111;114;108;111;111;112]%N.     (* "forloop" *)
Definition block_s : str := [98;108;111;99;107]%N.                 (* "block" *)
Definition tablerowloop_s : str := [116;97;98;108;101;114;111;119;108;111;111;112]%N.   (* "tablerowloop" *)
Definition raw_s : str := [114;97;119]%N.                          (* "raw" *)
Definition super_s : str := [115;117;112;101;114]%N.               (* "super" *)
Definition first_s : str := [102;105;114;115;116]%N.               (* "first" *)
Definition args_s : str := [97;114;103;115]%N.                     (* "args" *)
Definition kwargs_s : str := [107;119;97;114;103;115]%N.           (* "kwargs" *)
Definition include_s : str := [105;110;99;108;117;100;101]%N.      (* "include" *)

Definition n_block_scope (n : node) : list str :=
  match n with
  | WLoopBlock _ names _ => names                                   (* for_tag.LoopBlockNode.block_scope:
                                                                        loop variable, forloop - not the else block *)
  | NTablerow _ (ELoop id _ _ _ _) _ => [id; tablerowloop_s]        (* tablerow_tag.py block_scope *)
  | NWith _ args _ => map fst args                                  (* with_tag.py:78 *)
  | NMacro _ _ ps _ => map fst ps                                   (* macro_tag.py:100 *)
  | NBlock _ _ _ _ => [block_s]                                     (* extends_tag.py:286 *)
  | _ => []
  end.

Inductive pscope := Shared | Isolated | Inherited.

Definition partial_in_scope (name : str) (var : option expr) (alias : option str)
  (args : list (str * expr)) : list str :=
  map fst args ++
  match var with
  | Some _ => match alias with Some a => [a] | None => [stem name] end
  | None => []
  end.

Definition n_partial_scope (n : node) : option (str * pscope * list str) :=
  match n with
  | NInclude _ name _ var alias args => Some (name, Shared, partial_in_scope name var alias args)
  | NRender _ name _ var alias args => Some (name, Isolated, partial_in_scope name var alias args)
  | NExtends _ name => Some (name, Inherited, [])
  | _ => None
  end.

(** children() of the classes that do not load a template. *)
Definition n_kids (n : node) : list node :=
  match n with
  | NCapture _ _ b | NWith _ _ b | NMacro _ _ _ b | NBlock _ _ _ b | NLiquid _ b
  | WCond _ _ b | WMulti _ _ b | NTablerow _ _ b => [b]
  | NIf _ _ c alts d | NUnless _ _ c alts d => c :: alts ++ opt_list d
  | NCase _ _ whens d => whens ++ opt_list d
  | NFor _ _ b d => b :: opt_list d
  | WBlock _ ns | WLoopBlock _ _ ns => ns
  | _ => []
  end.

Definition load (get : loader) (name : str) : res (list node) :=
  match get name with Some ns => Ok ns | None => LErr TemplateNotFoundError None end.

(** Node.children(static_context, include_partials=...) *)
Definition n_children (get : loader) (incl : bool) (n : node) : res (list node) :=
  match n with
  | NInclude _ name _ _ _ _ | NRender _ name _ _ _ _ | NExtends _ name =>
      if incl then load get name else Ok []
  | _ => Ok (n_kids n)
  end.

(** Node.children_async: overridden by include/render/extends only
    (they await get_template_async); every other class inherits
    ast.py:90-97, which returns self.children(...). *)
Definition n_children_async (get_async get : loader) (incl : bool) (n : node) : res (list node) :=
  match n with
  | NInclude _ name _ _ _ _ | NRender _ name _ _ _ _ | NExtends _ name =>
      if incl then load get_async name else Ok []
  | _ => n_children get incl n
  end.

(** ** Results *)

Inductive segv := VName (s : str) | VIdx (i : Z) | VSub (l : list segv).

Record variable := { v_segs : list segv; v_tn : str; v_span : span }.

Inductive contrib :=
| CVar (v : variable)
| CGlobal (v : variable)
| CLocal (v : variable)
| CFilter (name tn : str) (sp : span)
| CTag (name tn : str) (sp : span).

Definition v_root (v : variable) : str :=
  match v_segs v with VName s :: _ => s | _ => [] end.

(** _VariableMap / defaultdict(list): insertion ordered dict of lists. *)
Fixpoint map_add {V} (k : str) (v : V) (m : list (str * list V)) : list (str * list V) :=
  match m with
  | [] => [(k, [v])]
  | (k', vs) :: m' => if str_eqb k k' then (k', vs ++ [v]) :: m' else (k', vs) :: map_add k v m'
  end.

Record analysis := {
  a_variables : list (str * list variable);
  a_globals : list (str * list variable);
  a_locals : list (str * list variable);
  a_filters : list (str * list (str * span));
  a_tags : list (str * list (str * span)) }.

Definition empty_analysis := {| a_variables := []; a_globals := []; a_locals := [];
                                a_filters := []; a_tags := [] |}.

Definition add_contrib (a : analysis) (c : contrib) : analysis :=
  match c with
  | CVar v => {| a_variables := map_add (v_root v) v (a_variables a); a_globals := a_globals a;
                 a_locals := a_locals a; a_filters := a_filters a; a_tags := a_tags a |}
  | CGlobal v => {| a_variables := a_variables a; a_globals := map_add (v_root v) v (a_globals a);
                    a_locals := a_locals a; a_filters := a_filters a; a_tags := a_tags a |}
  | CLocal v => {| a_variables := a_variables a; a_globals := a_globals a;
                   a_locals := map_add (v_root v) v (a_locals a); a_filters := a_filters a;
                   a_tags := a_tags a |}
  | CFilter n tn sp => {| a_variables := a_variables a; a_globals := a_globals a;
                          a_locals := a_locals a; a_filters := map_add n (tn, sp) (a_filters a);
                          a_tags := a_tags a |}
  | CTag n tn sp => {| a_variables := a_variables a; a_globals := a_globals a;
                       a_locals := a_locals a; a_filters := a_filters a;
                       a_tags := map_add n (tn, sp) (a_tags a) |}
  end.

Definition build (cs : list contrib) : analysis := fold_left add_contrib cs empty_analysis.

(** ** Traversals of expressions *)

Fixpoint mapM_app {A B} (g : A -> res (list B)) (l : list A) : res (list B) :=
  match l with
  | [] => Ok []
  | x :: l' => do a <- g x ;; do b <- mapM_app g l' ;; Ok (a ++ b)
  end.

(** _segments (static_analysis.py:370) *)
Fixpoint segments (fuel : nat) (root : str) (segs : list seg) : res (list segv) :=
  match fuel with
  | O => OutOfFuel
  | S f =>
      do rest <- mapM_app (fun s =>
                   match s with
                   | SName x => Ok [VName x]
                   | SIdx i => Ok [VIdx i]
                   | SPath (EPath _ r sg) => do l <- segments f r sg ;; Ok [VSub l]
                   | SPath _ => Ok []   (* unreachable: a bracketed segment is a Path *)
                   end) segs ;;
      Ok (VName root :: rest)
  end.

(** _StaticScope.__contains__ *)
Definition in_scope (x : str) (stack : list (list str)) : bool := existsb (mem_str x) stack.

(** _analyze_variables (static_analysis.py:338). [stack] is scope.stack in
    Python order; the function pushes and pops symmetrically, so the stack is
    a value here. *)
Fixpoint av (fuel : nat) (tn : str) (e : expr) (stack : list (list str)) : res (list contrib) :=
  match fuel with
  | O => OutOfFuel
  | S f =>
      do own <- match e with
                | EPath sp root segs =>
                    do sv <- segments f root segs ;;
                    let v := {| v_segs := sv; v_tn := tn; v_span := sp |} in
                    Ok (CVar v :: (if in_scope root stack then [] else [CGlobal v]))
                | _ => Ok []
                end ;;
      let stack' := match e_scope e with [] => stack | sc => stack ++ [sc] end in
      do rest <- mapM_app (fun c => av f tn c stack') (e_children e) ;;
      Ok (own ++ rest)
  end.

Definition filter_contribs (tn : str) (fs : list lfilter) : list contrib :=
  map (fun f => CFilter (f_name f) tn (f_span f)) fs.

(** _extract_filters (static_analysis.py:316) *)
Fixpoint ef (fuel : nat) (tn : str) (e : expr) : res (list contrib) :=
  match fuel with
  | O => OutOfFuel
  | S f =>
      let own := match e with
                 | EFiltered _ fs => filter_contribs tn fs
                 | ETernary _ _ _ _ fs tl => filter_contribs tn fs ++ filter_contribs tn tl
                 | _ => []
                 end in
      do rest <- mapM_app (ef f tn) (e_children e) ;;
      Ok (own ++ rest)
  end.

(** ** _visit *)

(** [v_seen]: the `seen` set; [v_root]: root_scope.stack. *)
Record vstate := { seen : list str; rootstk : list (list str) }.

Definition add_seen (x : str) (s : vstate) : vstate :=
  if mem_str x (seen s) then s else {| seen := seen s ++ [x]; rootstk := rootstk s |}.

(** The `scope` argument of _visit is either the root_scope object ([None])
    or an isolated _StaticScope object with its own stack. *)
Definition cur := option (list (list str)).

Definition cur_stack (c : cur) (s : vstate) : list (list str) :=
  match c with None => rootstk s | Some st => st end.

Definition cur_set (c : cur) (s : vstate) (st : list (list str)) : cur * vstate :=
  match c with
  | None => (None, {| seen := seen s; rootstk := st |})
  | Some _ => (Some st, s)
  end.

(** _StaticScope.add: self.stack[0].add(name) *)
Definition stack_add (x : str) (st : list (list str)) : list (list str) :=
  match st with
  | [] => []     (* IndexError in Python; never reached: a stack is never empty while in use *)
  | s0 :: st' => (if mem_str x s0 then s0 else s0 ++ [x]) :: st'
  end.

Definition node_tags (tn : str) (n : node) : list contrib :=
  if is_wrapper n then []
  else match n_token n with
       | TTag name sp | TLines name sp => [CTag name tn sp]
       | TRaw sp => [CTag raw_s tn sp]       (* fix: `raw` is reported as a tag *)
       | TOther => []
       end.

Definition local_var (tn : str) (i : ident) : variable :=
  {| v_segs := [VName (fst i)]; v_tn := tn; v_span := snd i |}.

(** `for child in children: _visit(child, name, scope)` with the state threaded. *)
Fixpoint fold_visit (v : node -> cur -> vstate -> res (cur * vstate * list contrib))
  (l : list node) (c : cur) (s : vstate) : res (cur * vstate * list contrib) :=
  match l with
  | [] => Ok (c, s, [])
  | x :: l' =>
      do r1 <- v x c s ;;
      let '(c1, s1, k1) := r1 in
      do r2 <- fold_visit v l' c1 s1 ;;
      let '(c2, s2, k2) := r2 in
      Ok (c2, s2, k1 ++ k2)
  end.

Definition pop_root (s : vstate) : vstate := {| seen := seen s; rootstk := removelast (rootstk s) |}.
Definition push_root (l : list str) (s : vstate) : vstate :=
  {| seen := seen s; rootstk := rootstk s ++ [l] |}.

Section Visit.
  (** [children] is Node.children for _analyze and Node.children_async for
      _analyze_async: the only textual difference between the two visitors. *)
  Variable children : bool -> node -> res (list node).
  Variable incl : bool.

  Fixpoint visit (fuel : nat) (n : node) (tn : str) (c : cur) (s : vstate)
    : res (cur * vstate * list contrib) :=
    match fuel with
    | O => OutOfFuel
    | S f =>
        let s1 := s in   (* (the root name is put into `seen` once, before the traversal) *)
        let tags := node_tags tn n in
        do ex <- mapM_app (fun e =>
                    do a <- av f tn e (cur_stack c s1) ;;
                    do b <- ef f tn e ;; Ok (a ++ b)) (n_expressions n) ;;
        (* _update_template_scope: scope.add(ident); locals.add(...) *)
        let add_locals := fun (c : cur) (s : vstate) =>
          cur_set c s (fold_left (fun st i => stack_add (fst i) st) (n_template_scope n) (cur_stack c s)) in
        let locs := map (fun i => CLocal (local_var tn i)) (n_template_scope n) in
        match n_partial_scope n with
        | Some (pname, kind, ins) =>
            let '(c2, s2) := add_locals c s1 in
            if mem_str pname (seen s2) then Ok (c2, s2, tags ++ ex ++ locs)
            else
              let '(pc, s3) :=
                match kind with
                | Isolated => (Some [ins], s2)
                | _ => (None, push_root ins s2)
                end in
              do ch <- children incl n ;;
              do r <- fold_visit (fun x pc s => visit f x pname pc (add_seen pname s)) ch pc s3 ;;
              let '(pc', s4, cc) := r in
              (* partial_scope.pop() *)
              let s5 := match pc' with None => pop_root s4 | Some _ => s4 end in
              Ok (c2, s5, tags ++ ex ++ locs ++ cc)
        | None =>
            let '(c3, s3) := cur_set c s1 (cur_stack c s1 ++ [n_block_scope n]) in
            do ch <- children incl n ;;
            do r <- fold_visit (fun x c s => visit f x tn c s) ch c3 s3 ;;
            let '(c4, s4, cc) := r in
            let '(c5, s5) := cur_set c4 s4 (removelast (cur_stack c4 s4)) in
            (* a tag binds its names when it has rendered its block (capture) *)
            let '(c6, s6) := add_locals c5 s5 in
            Ok (c6, s6, tags ++ ex ++ cc ++ locs)
        end
    end.

  (** seen = {root_name} (if not empty); root_name = str(template.path) if the template
      has a path, else template.name: the name partial tags load the root template by *)
  Definition init_vstate (name : str) :=
    {| seen := match name with [] => [] | _ => [name] end; rootstk := [[]] |}.

  (** for node in template.nodes: _visit(node, root_name, root_scope) *)
  Definition analyze_contribs (fuel : nat) (name : str) (nodes : list node)
    : res (vstate * list contrib) :=
    do r <- fold_visit (fun x c s => visit fuel x name c s) nodes None (init_vstate name) ;;
    let '(_, s, cs) := r in Ok (s, cs).

  Definition analyze_gen (fuel : nat) (name : str) (nodes : list node) : res analysis :=
    do r <- analyze_contribs fuel name nodes ;; Ok (build (snd r)).
End Visit.

(** Template.analyze / analyze_async (template.py) *)
Definition analyze (get : loader) (incl : bool) fuel name nodes : res analysis :=
  analyze_gen (n_children get) incl fuel name nodes.
Definition analyze_async (get_async get : loader) (incl : bool) fuel name nodes : res analysis :=
  analyze_gen (n_children_async get_async get) incl fuel name nodes.

(** Helper methods of Template (template.py): list(analysis.<map>) *)
Definition variables_of (a : analysis) : list str := keys (a_variables a).
Definition global_variables_of (a : analysis) : list str := keys (a_globals a).
Definition filter_names_of (a : analysis) : list str := keys (a_filters a).
Definition tag_names_of (a : analysis) : list str := keys (a_tags a).
Definition all_vars {V} (m : list (str * list V)) : list V := flat_map snd m.
Definition variable_segments_of (a : analysis) : list (list segv) := map v_segs (all_vars (a_variables a)).
Definition global_variable_segments_of (a : analysis) : list (list segv) := map v_segs (all_vars (a_globals a)).

(* ------------------------------------------------------------------ *)
(** * Part 3: tracing interpreter *)

(** What a render does that the property talks about. *)
Inductive kind := KBound | KGlobal.
Inductive event :=
| EvLookup (x : str) (k : kind)      (* RenderContext.get resolved root x; KGlobal: the application's
                                        global mapping was asked for x (no template-bound layer had it) *)
| EvResolve (x : str) (k : kind)     (* RenderContext.resolve(x) made by a filter on its own behalf *)
| EvFilter (f : str) (tern_left : bool)   (* filter applied; flag: it is a filter of the left branch of a ternary *)
| EvTag (name tn : str) (sp : span). (* Node.render of a tag node of template tn *)

(** Values are abstract; the only value the fragment must recognise is the
    `block` drop (extends_tag.BlockDrop) because `block.super` renders the
    parent block. [supers]: remaining parent blocks (template name, body). *)
Inductive binding := BPlain | BDrop (supers : list (str * node)).
Definition layer := list (str * binding).
Definition plain (xs : list str) : layer := map (fun x => (x, BPlain)) xs.

(** context.globals of a context: the application's mapping, or (isolated copy,
    context.py copy()) ChainMap(namespace, root_globals), or (block-scoped
    copy) ChainMap(namespace, parent.scope). *)
Inductive gkind := GUser | GNs (ns : layer) | GParent (ns : layer).

Record macro := { m_params : list (str * option expr); m_body : node; m_tn : str }.
Record bitem := { bi_tn : str; bi_body : node; bi_required : bool }.

Record frame := {
  pushed : list layer;        (* namespaces pushed by extend(), innermost first *)
  locals : layer;
  gl : gkind;
  counters : list str;
  macros : list (str * macro);            (* tag_namespace["macros"] *)
  stacks : list (str * list bitem);       (* tag_namespace["extends"] *)
  ctmpl : str * list node;                (* context.template *)
  disabled : list str }.

(** A context is the list [current; the context it was block-scope-copied from; ...]. *)
Definition ctx := list frame.

Fixpoint find_layers (x : str) (ls : list layer) : option binding :=
  match ls with
  | [] => None
  | l :: ls' => match assoc x l with Some b => Some b | None => find_layers x ls' end
  end.

(** scope[x]: which layer answers, and for a drop at which depth its own
    context lives. *)
Fixpoint lookup (x : str) (c : ctx) (depth : nat) : kind * binding * nat :=
  match c with
  | [] => (KGlobal, BPlain, depth)
  | fr :: rest =>
      match find_layers x (pushed fr) with
      | Some b => (KBound, b, depth)
      | None =>
          match assoc x (locals fr) with
          | Some b => (KBound, b, depth)
          | None =>
              match gl fr with
              | GUser => (KGlobal, BPlain, depth)
              | GNs ns => match assoc x ns with
                          | Some b => (KBound, b, depth)
                          | None => (KGlobal, BPlain, depth)
                          end
              | GParent ns => match assoc x ns with
                              | Some b => (KBound, b, S depth)
                              | None => lookup x rest (S depth)
                              end
              end
          end
      end
  end.

Record state := { cx : ctx; orc : list N }.

Inductive halt := HStop | HErr (c : lclass) | HPy (k : pykind) | HFuel | HOracle.
Inductive outcome (A : Type) := Done (a : A) | Halt (h : halt).
Arguments Done {A} a.
Arguments Halt {A} h.

Definition M (A : Type) := state -> list event * state * outcome A.

Definition ret {A} (a : A) : M A := fun s => ([], s, Done a).
Definition mbind {A B} (m : M A) (k : A -> M B) : M B := fun s =>
  let '(t1, s1, o1) := m s in
  match o1 with
  | Done a => let '(t2, s2, o2) := k a s1 in (t1 ++ t2, s2, o2)
  | Halt h => (t1, s1, Halt h)
  end.
Notation "'mdo' x <- m ;;; k" := (mbind m (fun x => k))
  (at level 200, x pattern, m at level 99, k at level 200, right associativity).
Notation "m >>> k" := (mbind m (fun _ => k)) (at level 100, right associativity).

Definition emit (t : list event) : M unit := fun s => (t, s, Done tt).
Definition stop {A} (h : halt) : M A := fun s => ([], s, Halt h).
Definition getc : M ctx := fun s => ([], s, Done (cx s)).
Definition upd (f : ctx -> ctx) : M unit := fun s => ([], {| cx := f (cx s); orc := orc s |}, Done tt).
Definition pop : M N := fun s =>
  match orc s with
  | [] => ([], s, Halt HOracle)
  | n :: o => ([], {| cx := cx s; orc := o |}, Done n)
  end.
Definition pop_bool : M bool := mdo n <- pop ;;; ret (negb (N.eqb n 0)).

Fixpoint forM {A} (l : list A) (f : A -> M unit) : M unit :=
  match l with [] => ret tt | x :: l' => f x >>> forM l' f end.
Fixpoint repeatM (n : nat) (m : M unit) : M unit :=
  match n with O => ret tt | S n' => m >>> repeatM n' m end.
Definition ign {A} (m : M A) : M unit := m >>> ret tt.

(** Run [m] in the context [d] block-scope levels up (the context a drop was
    created with). *)
Definition at_depth {A} (d : nat) (m : M A) : M A := fun s =>
  let '(t, s', o) := m {| cx := skipn d (cx s); orc := orc s |} in
  (t, {| cx := firstn d (cx s) ++ cx s'; orc := orc s' |}, o).

(** Run [m] in a fresh isolated context (context.copy without block_scope);
    nothing of it survives but the oracle position. *)
Definition isolated {A} (fr : frame) (m : M A) : M A := fun s =>
  let '(t, s', o) := m {| cx := [fr]; orc := orc s |} in
  (t, {| cx := cx s; orc := orc s' |}, o).

(** Template.render_with_context: StopRender ends the template quietly. *)
Definition catch_stop (m : M unit) : M unit := fun s =>
  let '(t, s', o) := m s in
  match o with Halt HStop => (t, s', Done tt) | _ => (t, s', o) end.

(** ctx transformers on the current frame *)
Definition on_head (f : frame -> frame) (c : ctx) : ctx :=
  match c with [] => [] | fr :: r => f fr :: r end.
Definition set_pushed (p : list layer) (fr : frame) : frame :=
  {| pushed := p; locals := locals fr; gl := gl fr; counters := counters fr; macros := macros fr;
     stacks := stacks fr; ctmpl := ctmpl fr; disabled := disabled fr |}.
Definition push_layer (l : layer) : ctx -> ctx := on_head (fun fr => set_pushed (l :: pushed fr) fr).
Definition pop_layer : ctx -> ctx := on_head (fun fr => set_pushed (tl (pushed fr)) fr).
Definition bind_top (x : str) : ctx -> ctx :=
  on_head (fun fr => match pushed fr with
                     | [] => fr
                     | l :: p => set_pushed (dict_set x BPlain l :: p) fr
                     end).
Definition assign (x : str) : ctx -> ctx :=
  on_head (fun fr => {| pushed := pushed fr; locals := dict_set x BPlain (locals fr); gl := gl fr;
                        counters := counters fr; macros := macros fr; stacks := stacks fr;
                        ctmpl := ctmpl fr; disabled := disabled fr |}).
Definition add_counter (x : str) : ctx -> ctx :=
  on_head (fun fr => {| pushed := pushed fr; locals := locals fr; gl := gl fr;
                        counters := x :: counters fr; macros := macros fr; stacks := stacks fr;
                        ctmpl := ctmpl fr; disabled := disabled fr |}).
Definition set_macro (x : str) (m : macro) : ctx -> ctx :=
  on_head (fun fr => {| pushed := pushed fr; locals := locals fr; gl := gl fr;
                        counters := counters fr; macros := dict_set x m (macros fr); stacks := stacks fr;
                        ctmpl := ctmpl fr; disabled := disabled fr |}).
Definition set_stacks (st : list (str * list bitem)) : ctx -> ctx :=
  on_head (fun fr => {| pushed := pushed fr; locals := locals fr; gl := gl fr;
                        counters := counters fr; macros := macros fr; stacks := st;
                        ctmpl := ctmpl fr; disabled := disabled fr |}).
Definition set_ctmpl (t : str * list node) : ctx -> ctx :=
  on_head (fun fr => {| pushed := pushed fr; locals := locals fr; gl := gl fr;
                        counters := counters fr; macros := macros fr; stacks := stacks fr;
                        ctmpl := t; disabled := disabled fr |}).

Definition new_frame (g : gkind) (st : list (str * list bitem)) (t : str * list node)
  (dis : list str) : frame :=
  {| pushed := []; locals := []; gl := g; counters := []; macros := []; stacks := st;
     ctmpl := t; disabled := dis |}.

Definition on_head_frame_macros (ms : list (str * macro)) (fr : frame) : frame :=
  {| pushed := pushed fr; locals := locals fr; gl := gl fr; counters := counters fr; macros := ms;
     stacks := stacks fr; ctmpl := ctmpl fr; disabled := disabled fr |}.

Definition head_frame : M frame := fun s =>
  match cx s with
  | fr :: _ => ([], s, Done fr)
  | [] => ([], s, Halt (HPy OtherPyError))     (* unreachable: a context always has a frame *)
  end.

(** Node.render's trace entry: tags are all node classes except the text /
    output / comment pseudo nodes and the three internal block wrappers. *)
Definition tag_events (tn : str) (n : node) : list event :=
  match n with
  | NContent _ | NComment _ | NOutput _ _ | WBlock _ _ | WCond _ _ _ | WMulti _ _ _
  | WLoopBlock _ _ _ => []
  | _ => match n_token n with
         | TTag name sp | TLines name sp => [EvTag name tn sp]
         | TRaw sp => [EvTag raw_s tn sp]
         | TOther => []
         end
  end.

(** CallNode.macro_args (macro_tag.py): parameter -> expression bound to it,
    excess positional and excess keyword arguments. *)
Fixpoint bind_positional (ps : list (str * option expr)) (args : list expr)
  : list (str * option expr) * list expr :=
  match ps, args with
  | [], _ => ([], args)
  | _, [] => (ps, [])
  | (p, _) :: ps', a :: args' =>
      let '(b, ex) := bind_positional ps' args' in ((p, Some a) :: b, ex)
  end.

Fixpoint bind_keywords (bound : list (str * option expr)) (exk : list (str * expr))
  (kw : list (str * expr)) : list (str * option expr) * list (str * expr) :=
  match kw with
  | [] => (bound, exk)
  | (k, e) :: kw' =>
      match assoc k bound with
      | Some _ => bind_keywords (dict_set k (Some e) bound) exk kw'
      | None => bind_keywords bound (dict_set k e exk) kw'
      end
  end.

(** extends_tag._find_inheritance_nodes: extends names and block nodes, in
    document order, descending through children(include_partials=False). *)
Fixpoint find_inh (fuel : nat) (ns : list node)
  : res (list str * list (str * bool * node)) :=
  match fuel with
  | O => OutOfFuel
  | S f =>
      (fix go (l : list node) :=
         match l with
         | [] => Ok ([], [])
         | n :: l' =>
             let own := match n with
                        | NBlock _ name req body => ([], [(name, req, body)])
                        | NExtends _ name => ([name], [])
                        | _ => ([], [])
                        end in
             do sub <- find_inh f (n_kids n) ;;
             do rest <- go l' ;;
             Ok (fst own ++ fst sub ++ fst rest, snd own ++ snd sub ++ snd rest)
         end) ns
  end.

Fixpoint has_dup (l : list str) : bool :=
  match l with [] => false | x :: l' => mem_str x l' || has_dup l' end.

(** _store_blocks *)
Fixpoint store_blocks (tn : str) (bs : list (str * bool * node))
  (st : list (str * list bitem)) : list (str * list bitem) :=
  match bs with
  | [] => st
  | (name, req, body) :: bs' =>
      let old := match assoc name st with Some l => l | None => [] end in
      store_blocks tn bs'
        (dict_set name (old ++ [{| bi_tn := tn; bi_body := body; bi_required := req |}]) st)
  end.

(** _AnyExpression.evaluate: any(_eq(left, right.evaluate()) ...) - stops at the first match *)
Fixpoint any_loop (ev : expr -> M unit) (l : list expr) : M bool :=
  match l with
  | [] => ret false
  | x :: l' => ev x >>> mdo b <- pop_bool ;;; if b then ret true else any_loop ev l'
  end.

(** IfNode/UnlessNode: `for alternative in self.alternatives: if alternative.expression.evaluate(): return alternative.block.render()` *)
Fixpoint alts_loop (evalb : expr -> M bool) (rn : node -> M unit) (dflt : M unit) (l : list node) : M unit :=
  match l with
  | [] => dflt
  | WCond _ e blk :: l' => mdo b <- evalb e ;;; if b then rn blk else alts_loop evalb rn dflt l'
  | _ :: l' => alts_loop evalb rn dflt l'
  end.

(** CaseNode.render_to_output (after 4e4e9da: else only if no when matched) *)
Fixpoint whens_loop (ev : expr -> M unit) (lft : expr) (rn : node -> M unit) (dflt : M unit)
  (l : list node) (matched : bool) : M unit :=
  match l with
  | [] => if matched then ret tt else dflt
  | WMulti _ (EAny items) blk :: l' =>
      (* when.expression.evaluate(): left = self.left.evaluate(), then the alternatives *)
      ev lft >>>
      mdo b <- any_loop ev items ;;;
      if b then rn blk >>> whens_loop ev lft rn dflt l' true else whens_loop ev lft rn dflt l' matched
  | _ :: l' => whens_loop ev lft rn dflt l' matched
  end.

Definition load_m (get : loader) (name : str) : M (list node) :=
  match get name with
  | Some ns => ret ns
  | None => stop (HErr TemplateNotFoundError)
  end.

(** extends_tag._build_block_stacks: stack the blocks of every template of the
    inheritance chain; returns the base template. [f]: fuel of the tree walk. *)
Fixpoint chain (get : loader) (f : nat) (g : nat) (t : str * list node) (seen : list str)
  (last : option (str * list node)) : M (str * list node) :=
  match g with
  | O => stop HFuel
  | S g' =>
      match find_inh f (snd t) with
      | Ok (exts, blocks) =>
          if Nat.ltb 1 (length exts) then stop (HErr TemplateInheritanceError)
          else if has_dup (map (fun b => fst (fst b)) blocks)
          then stop (HErr TemplateInheritanceError)
          else
            mdo fr' <- head_frame ;;;
            upd (set_stacks (store_blocks (fst t) blocks (stacks fr'))) >>>
            match exts with
            | [] => match last with
                    | Some b => ret b
                    | None => stop (HPy AssertionError)
                    end
            | pname :: _ =>
                if mem_str pname seen then stop (HErr TemplateInheritanceError)
                else
                  mdo pn <- load_m get pname ;;;
                  chain get f g' (pname, pn) (pname :: seen) (Some (pname, pn))
            end
      | _ => stop HFuel
      end
  end.

(** Filter.evaluate for each filter in turn: arguments, the call itself, the
    names the filter resolves on its own, and - abstractly - the applications of
    lambda arguments (LambdaExpression.map: parameters bound in an extended
    scope, body evaluated once per item). *)
Definition resolve_events (reads : str -> list str) (f : str) : M unit :=
  forM (reads f) (fun x => mdo c <- getc ;;;
                           let '(k, _, _) := lookup x c 0 in emit [EvResolve x k]).

Definition apply_filters (reads : str -> list str) (ev : expr -> M unit) (flag : bool)
  (fs : list lfilter) : M unit :=
  forM fs (fun fl =>
    forM (f_args fl) ev >>>
    emit [EvFilter (f_name fl) flag] >>>
    resolve_events reads (f_name fl) >>>
    forM (f_args fl) (fun a =>
      match a with
      | ELambda ps body =>
          mdo n <- pop ;;;
          upd (push_layer (plain (firstn 2 ps))) >>>
          repeatM (N.to_nat n) (ev body) >>>
          upd pop_layer
      | _ => ret tt
      end)).

(** Template.render_with_context *)
Definition rtemplate (rn : str -> node -> M unit) (name : str) (nodes : list node) : M unit :=
  upd (push_layer []) >>> catch_stop (forM nodes (rn name)) >>> upd pop_layer.

Section Interp.
  Variable get : loader.
  (** names a filter resolves from the render context on its own behalf
      (translations, locale, timezone ... for the i18n filters) *)
  Variable reads : str -> list str.

  Definition is_super_seg (s : seg) : bool :=
    match s with SName x => str_eqb x super_s || str_eqb x first_s | _ => false end.

  Fixpoint eval (fuel : nat) (e : expr) : M bool :=
    match fuel with
    | O => stop HFuel
    | S f =>
        let evs := fun l => forM l (fun x => ign (eval f x)) in
        let evo := fun o => evs (opt_list o) in
        let apply := apply_filters reads (fun x => ign (eval f x)) in
        match e with
        | ELit => ret false
        | EPath _ root segs =>
            evs (flat_map (fun s => match s with SPath p => [p] | _ => [] end) segs) >>>
            mdo c <- getc ;;;
            let '(k, b, d) := lookup root c 0 in
            emit [EvLookup root k] >>>
            match b, segs with
            | BDrop ((ptn, pbody) :: rest), s0 :: _ =>
                if is_super_seg s0 then
                  at_depth d (upd (push_layer [(block_s, BDrop rest)]) >>>
                              render_node f ptn pbody >>>
                              upd pop_layer) >>> ret false
                else ret false
            | _, _ => ret false
            end
        | ERange a b => evs [a; b] >>> ret false
        | EArray items => evs items >>> ret false
        | ETemplateString parts => evs parts >>> ret false
        | ELambda _ _ => ret false
        | EFiltered l fs => evs [l] >>> apply false fs >>> ret false
        | ETernary l0 fs0 c alt fs tl =>
            mdo b <- eval f c ;;;
            (if b then evs [l0] >>> apply true fs0
             else match alt with
                  | Some a => evs [a] >>> apply false fs
                  | None => ret tt
                  end) >>>
            apply false tl >>> ret false
        | EBool x => evs [x] >>> pop_bool
        | ENot x => evs [x] >>> mdo b <- pop_bool ;;; ret (negb b)
        | EAnd l r => evs [l] >>> mdo b <- pop_bool ;;; if b then evs [r] >>> pop_bool else ret false
        | EOr l r => evs [l] >>> mdo b <- pop_bool ;;; if b then ret true else evs [r] >>> pop_bool
        | ECmp rf l r => (if rf then evs [r; l] else evs [l; r]) >>> ret false
        | ELoop _ it lim off _ => evs [it] >>> evo lim >>> evo off >>> ret false
        | EAny items => any_loop (fun x => evs [x]) items
        end
    end

  with render_node (fuel : nat) (tn : str) (n : node) : M unit :=
    match fuel with
    | O => stop HFuel
    | S f =>
        let ev := fun e => ign (eval f e) in
        let rn := render_node f tn in
        let rno := fun o => forM (opt_list o) rn in
        let rtemplate := rtemplate (render_node f) in
        mdo fr <- head_frame ;;;
        if match n_token n with TTag name _ => mem_str name (disabled fr) | _ => false end
        then stop (HErr DisabledTagError)
        else
        emit (tag_events tn n) >>>
        match n with
        | NContent _ | NComment _ | NRaw _ => ret tt
        | NOutput _ e | NEcho _ e => ev e
        | NAssign _ name e => ev e >>> upd (assign (fst name))
        | NCapture _ name b => rn b >>> upd (assign (fst name))
        | NIf _ c cns alts d | NUnless _ c cns alts d =>
            mdo b <- eval f c ;;;
            if (match n with NUnless _ _ _ _ _ => negb b | _ => b end) then rn cns
            else alts_loop (eval f) rn (rno d) alts
        | NCase _ e whens d => whens_loop ev e rn (rno d) whens false
        | NFor _ l blk d =>
            ev l >>> mdo k <- pop ;;;
            if N.eqb k 0 then rno d
            else (* namespace = {"forloop": forloop, name: None} *)
                 upd (push_layer (plain (match l with ELoop id _ _ _ _ => [forloop_s; id] | _ => [forloop_s] end))) >>>
                 repeatM (N.to_nat k) (rn blk) >>>
                 upd pop_layer
        | NWith _ args blk =>
            forM args (fun a => ev (snd a)) >>>
            upd (push_layer (plain (map fst args))) >>> rn blk >>> upd pop_layer
        | NIncrement _ name | NDecrement _ name => upd (add_counter (fst name))
        | NCycle _ items =>
            mdo i <- pop ;;;
            match nth_error items (N.to_nat i) with
            | Some e => ev e
            | None => stop (HPy IndexError)
            end
        | NMacro _ name ps blk =>
            upd (set_macro name {| m_params := ps; m_body := blk; m_tn := tn |})
        | NCall _ name args kw =>
            match assoc name (macros fr) with
            | None => ret tt
            | Some m =>
                let '(b0, exa) := bind_positional (m_params m) args in
                let '(bound, exk) := bind_keywords b0 [] kw in
                forM exa ev >>> forM exk (fun a => ev (snd a)) >>>
                forM bound (fun p => forM (opt_list (snd p)) ev) >>>
                (* the body gets a copy of the caller's macro registry *)
                isolated (on_head_frame_macros (macros fr)
                            (new_frame (GNs (plain (args_s :: kwargs_s :: map fst bound))) []
                                       (ctmpl fr) [include_s; block_s]))
                         (render_node f (m_tn m) (m_body m))
            end
        | NInclude _ name _ var alias args =>
            mdo nodes <- load_m get name ;;;
            forM args (fun a => ev (snd a)) >>>
            upd (push_layer (plain (map fst args))) >>>
            upd (set_ctmpl (name, nodes)) >>>
            (match var with
             | None => rtemplate name nodes
             | Some v =>
                 ev v >>> mdo k <- pop ;;;
                 let key := match alias with Some a => a | None => rt_stem name end in
                 if N.eqb k 0 then upd (bind_top key) >>> rtemplate name nodes
                 else repeatM (N.to_nat k - 1) (upd (bind_top key) >>> rtemplate name nodes)
             end) >>>
            upd (set_ctmpl (ctmpl fr)) >>>
            upd pop_layer
        | NRender _ name loop var alias args =>
            mdo nodes <- load_m get name ;;;
            forM args (fun a => ev (snd a)) >>>
            let ns := map fst args in
            let mk := fun extra => new_frame (GNs (plain (ns ++ extra))) [] (name, nodes) [include_s] in
            (match var with
             | None => isolated (mk []) (rtemplate name nodes)
             | Some v =>
                 ev v >>> mdo k <- pop ;;;
                 let key := match alias with Some a => a | None => rt_stem name end in
                 if loop && negb (N.eqb k 0)
                 then (* every item is rendered in an isolated context of its own *)
                      repeatM (N.to_nat k - 1) (isolated (mk [forloop_s; key]) (rtemplate name nodes))
                 else isolated (mk [key]) (rtemplate name nodes)
             end)
        | NExtends _ _ =>
            (* _build_block_stacks(context, context.template, "extends") *)
            mdo base <- chain get f f (ctmpl fr) [] None ;;;
            rtemplate (fst base) (snd base) >>>
            upd (set_stacks []) >>>
            stop HStop
        | NBlock _ name req body =>
            match assoc name (stacks fr) with
            | None | Some [] =>
                if req then stop (HErr RequiredBlockError)
                else upd (push_layer [(block_s, BDrop [])]) >>> rn body >>> upd pop_layer
            | Some (item :: rest) =>
                if bi_required item then stop (HErr RequiredBlockError)
                else
                  upd (fun c => new_frame (GParent [(block_s, BDrop (map (fun i => (bi_tn i, bi_body i)) rest))])
                                          (stacks fr) (ctmpl fr) [] :: c) >>>
                  render_node f (bi_tn item) (bi_body item) >>>
                  upd (@tl frame)
            end
        | NLiquid _ b => rn b
        | WBlock _ ns => forM ns rn
        | WCond _ e b | WMulti _ e b => mdo bb <- eval f e ;;; if bb then rn b else ret tt
        | NTablerow _ l blk =>
            (* expression.evaluate (iterable, limit, offset), then cols, then the rows *)
            ev l >>> mdo k <- pop ;;;
            (match l with ELoop _ _ _ _ cols => forM (opt_list cols) ev | _ => ret tt end) >>>
            upd (push_layer (plain (n_block_scope n))) >>>
            repeatM (N.to_nat k) (rn blk) >>>
            upd pop_layer
        | WLoopBlock _ _ ns => forM ns rn
        end
    end.

  (** Template.render: a root context on the application's globals. *)
  Definition run (fuel : nat) (name : str) (nodes : list node) (oracle : list N)
    : list event * state * outcome unit :=
    rtemplate (render_node fuel) name nodes
      {| cx := [new_frame GUser [] (name, nodes) []]; orc := oracle |}.

  Definition trace (fuel : nat) (name : str) (nodes : list node) (oracle : list N) : list event :=
    fst (fst (run fuel name nodes oracle)).
End Interp.

(* ------------------------------------------------------------------ *)
(** * Part 4: boolean equalities used by the correspondence runner *)

Definition span_eqb (a b : span) : bool := Z.eqb (fst a) (fst b) && Z.eqb (snd a) (snd b).

Fixpoint segv_eqb (a b : segv) : bool :=
  match a, b with
  | VName x, VName y => str_eqb x y
  | VIdx x, VIdx y => Z.eqb x y
  | VSub xs, VSub ys =>
      (fix go (xs ys : list segv) : bool :=
         match xs, ys with
         | [], [] => true
         | x :: xs', y :: ys' => segv_eqb x y && go xs' ys'
         | _, _ => false
         end) xs ys
  | _, _ => false
  end.

Definition variable_eqb (a b : variable) : bool :=
  list_eqb segv_eqb (v_segs a) (v_segs b) && str_eqb (v_tn a) (v_tn b) && span_eqb (v_span a) (v_span b).

Definition loc_eqb (a b : str * span) : bool := str_eqb (fst a) (fst b) && span_eqb (snd a) (snd b).

Definition map_eqb {V} (eqb : V -> V -> bool) : list (str * list V) -> list (str * list V) -> bool :=
  list_eqb (prod_eqb str_eqb (list_eqb eqb)).

Definition analysis_eqb (a b : analysis) : bool :=
  map_eqb variable_eqb (a_variables a) (a_variables b)
  && map_eqb variable_eqb (a_globals a) (a_globals b)
  && map_eqb variable_eqb (a_locals a) (a_locals b)
  && map_eqb loc_eqb (a_filters a) (a_filters b)
  && map_eqb loc_eqb (a_tags a) (a_tags b).

Definition kind_eqb (a b : kind) : bool :=
  match a, b with KBound, KBound | KGlobal, KGlobal => true | _, _ => false end.

(** The ternary-left flag of a filter event is not observable on the engine. *)
Definition event_eqb (a b : event) : bool :=
  match a, b with
  | EvLookup x k, EvLookup y k' | EvResolve x k, EvResolve y k' => str_eqb x y && kind_eqb k k'
  | EvFilter f _, EvFilter g _ => str_eqb f g
  | EvTag n t s, EvTag n' t' s' => str_eqb n n' && str_eqb t t' && span_eqb s s'
  | _, _ => false
  end.

Definition completed (r : list event * state * outcome unit) : bool :=
  match snd r with Done _ => true | Halt _ => false end.

(** set equality of lists of segment lists (variable_segments() builds a set) *)
Definition segs_subset (a b : list (list segv)) : bool :=
  forallb (fun x => existsb (list_eqb segv_eqb x) b) a.
Definition segs_seteq (a b : list (list segv)) : bool := segs_subset a b && segs_subset b a.

(** Checks evaluated by the correspondence runner on a reified program [L]
    (entry point: the template named [main_s]). *)
Definition run_fuel : nat := 64.

Definition chk_static (L : list (str * list node)) (main_s : str) (incl : bool) (exp expa : res analysis) : bool :=
  match assoc main_s L with
  | Some nodes =>
      res_eqb_nopos analysis_eqb (analyze (loader_of L) incl run_fuel main_s nodes) exp
      && res_eqb_nopos analysis_eqb
           (analyze_async (loader_of L) (loader_of L) incl run_fuel main_s nodes) expa
  | None => false
  end.

Definition chk_helpers (L : list (str * list node)) (main_s : str) (vars globs filters tags : list str)
  (segs gsegs : list (list segv)) : bool :=
  match assoc main_s L with
  | Some nodes =>
      match analyze (loader_of L) true run_fuel main_s nodes with
      | Ok a =>
          list_eqb str_eqb (variables_of a) vars
          && list_eqb str_eqb (global_variables_of a) globs
          && list_eqb str_eqb (filter_names_of a) filters
          && list_eqb str_eqb (tag_names_of a) tags
          && segs_seteq (variable_segments_of a) segs
          && segs_seteq (global_variable_segments_of a) gsegs
      | _ => false
      end
  | None => false
  end.

Definition chk_trace (L : list (str * list node)) (main_s : str) (reads : str -> list str)
  (oracle : list N) (exp : list event) : bool :=
  match assoc main_s L with
  | Some nodes =>
      let r := run (loader_of L) reads run_fuel main_s nodes oracle in
      completed r && list_eqb event_eqb (fst (fst r)) exp
      && match orc (snd (fst r)) with [] => true | _ => false end
  | None => false
  end.

(** A render that the engine aborted with a LiquidError the model knows
    (DisabledTagError, RequiredBlockError, TemplateInheritanceError ...). *)
Definition chk_trace_err (L : list (str * list node)) (main_s : str) (reads : str -> list str)
  (oracle : list N) (exp : list event) (cls : lclass) : bool :=
  match assoc main_s L with
  | Some nodes =>
      let r := run (loader_of L) reads run_fuel main_s nodes oracle in
      match snd r with Halt (HErr c) => lclass_eqb c cls | _ => false end
      && list_eqb event_eqb (fst (fst r)) exp
      && match orc (snd (fst r)) with [] => true | _ => false end
  | None => false
  end.

Definition model_trace (L : list (str * list node)) (main_s : str) (reads : str -> list str) (oracle : list N) :=
  match assoc main_s L with
  | Some nodes => let r := run (loader_of L) reads run_fuel main_s nodes oracle in
                  (fst (fst r), snd r, orc (snd (fst r)))
  | None => ([], Halt HFuel, [])
  end.
