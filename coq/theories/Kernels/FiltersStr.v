(** Kernels/FiltersStr.v — the string filters, with their [string_filter]
    coercion ([to_liquid_string(left)], filter.py:130), on models of the
    [str] methods, [html.escape], [urllib.parse.quote_plus/unquote_plus] and
    [base64] they call.

    MODEL file.  Transcribed (after the fix: commits proposed in
    /verif/proposed_fixes/C19) from
      liquid2/builtin/filters/string.py
      liquid2/utils/text.py                 truncate_chars
      liquid2/shopify/filters/_base64.py
    auto_escape is off (the Markup variants are C04's subject).
    Case mapping is exact for strings whose cased characters are ASCII;
    [html.unescape] is executable here only for the character references
    [html.escape] produces and numeric references of printable ASCII (other
    references: [unmodelled]); the theorems take the library function as a
    parameter with the hypothesis [unescape (escape s) = s]. *)
From LQ Require Import Base.Str Kernels.FVal Kernels.FiltersNum Kernels.FiltersSeq.
Local Open Scope N_scope.

Module SLit.
  Import String.
  Local Open Scope string_scope.
  Definition ellipsis := s2l "...".
  Definition br : str := List.app (s2l "<br />") (List.cons 10%N List.nil).
  Definition amp := s2l "&amp;".
  Definition lt := s2l "&lt;".
  Definition gt := s2l "&gt;".
  Definition quot := s2l "&quot;".
  Definition apos := s2l "&#x27;".
  Definition n_amp := s2l "amp;".
  Definition n_lt := s2l "lt;".
  Definition n_gt := s2l "gt;".
  Definition n_quot := s2l "quot;".
  Definition n_apos := s2l "apos;".
End SLit.

(** * append / prepend / case / strip *)

(** string.py:28 *)
Definition append_f (left arg : fval) : res fval :=
  do v <- to_liquid_string left;;
  do a <- to_liquid_string arg;;          (* after the fix: Liquid's coercion, not str() *)
  Ok (FStr (v ++ a)).

(** string.py:96 *)
Definition prepend_f (left arg : fval) : res fval :=
  do v <- to_liquid_string left;;
  do a <- to_liquid_string arg;;
  Ok (FStr (a ++ v)).

Definition str_filter1 (f : str -> str) (left : fval) : res fval :=
  do v <- to_liquid_string left;; Ok (FStr (f v)).

Definition py_capitalize (s : str) : str :=
  match s with [] => [] | c :: r => ascii_upper1 c :: ascii_lower r end.

Definition capitalize_f := str_filter1 py_capitalize.   (* string.py:39 *)
Definition downcase_f := str_filter1 ascii_lower.       (* string.py:45 *)
Definition upcase_f := str_filter1 ascii_upper.         (* string.py:151 *)

Definition py_lstrip : str -> str := lstrip_by py_isspace.
Definition py_rstrip : str -> str := rstrip_by py_isspace.
(** [str.strip()] removes trailing then leading whitespace. *)
Definition py_strip (s : str) : str := py_lstrip (py_rstrip s).

Definition lstrip_f := str_filter1 py_lstrip.           (* string.py:71 *)
Definition rstrip_f := str_filter1 py_rstrip.           (* string.py:210 *)
Definition strip_f := str_filter1 py_strip.             (* string.py:204 *)

(** * replace / remove *)

Definition dec_count (c : option nat) : option nat :=
  match c with Some (S n) => Some n | x => x end.

(** [s.replace("", new, count)] *)
Fixpoint interleave (new s : str) (count : option nat) : str :=
  match count with
  | Some O => s
  | _ => match s with
         | [] => new
         | c :: r => new ++ c :: interleave new r (dec_count count)
         end
  end.

Fixpoint replace_fuel (fuel : nat) (old new s : str) (count : option nat) : str :=
  match fuel with
  | O => s
  | S f =>
      match count with
      | Some O => s
      | _ => match find_sub old s with
             | Some (a, b) => a ++ new ++ replace_fuel f old new b (dec_count count)
             | None => s
             end
      end
  end.

(** [s.replace(old, new[, count])] *)
Definition py_replace (old new s : str) (count : option nat) : str :=
  match old with
  | [] => interleave new s count
  | _ => replace_fuel (S (length s)) old new s count
  end.

(** string.py:125,131 *)
Definition replace_f (left seq sub : fval) : res fval :=
  do v <- to_liquid_string left;; do a <- to_liquid_string seq;; do b <- to_liquid_string sub;;
  Ok (FStr (py_replace a b v None)).
Definition replace_first_f (left seq sub : fval) : res fval :=
  do v <- to_liquid_string left;; do a <- to_liquid_string seq;; do b <- to_liquid_string sub;;
  Ok (FStr (py_replace a b v (Some 1%nat))).

(** string.py:102,108 *)
Definition remove_f (left arg : fval) : res fval :=
  do v <- to_liquid_string left;; do a <- to_liquid_string arg;;
  Ok (FStr (py_replace a [] v None)).
Definition remove_first_f (left arg : fval) : res fval :=
  do v <- to_liquid_string left;; do a <- to_liquid_string arg;;
  Ok (FStr (py_replace a [] v (Some 1%nat))).

(** Last occurrence: (before, after). *)
Definition rfind_sub (sep s : str) : option (str * str) :=
  match find_sub (rev sep) (rev s) with
  | Some (a, b) => Some (rev b, rev a)
  | None => None
  end.

(** string.py:137 [replace_last] (after the fix: the separator, not the text
    before it, says whether there was a match); empty [seq]: [val + sub]. *)
Definition replace_last_str (seq sub v : str) : str :=
  match seq with
  | [] => v ++ sub
  | _ => match rfind_sub seq v with
         | Some (before, after) => before ++ sub ++ after
         | None => v
         end
  end.

Definition replace_last_f (left seq sub : fval) : res fval :=
  do v <- to_liquid_string left;; do a <- to_liquid_string seq;; do b <- to_liquid_string sub;;
  Ok (FStr (replace_last_str a b v)).

(** string.py:114 [remove_last]; empty [arg]: [val]. *)
Definition remove_last_str (arg v : str) : str :=
  match arg with
  | [] => v
  | _ => match rfind_sub arg v with
         | Some (before, after) => before ++ after
         | None => v
         end
  end.

Definition remove_last_f (left arg : fval) : res fval :=
  do v <- to_liquid_string left;; do a <- to_liquid_string arg;;
  Ok (FStr (remove_last_str a v)).

(** * truncate / truncatewords *)

(** limits.py [to_int(val)] = [int(val)]: ValueError for a non-numeric string
    (the callers turn it into LiquidTypeError), TypeError for None / list / dict. *)
Definition to_int_arg (v : fval) : res Z :=
  match v with
  | FInt z => Ok z
  | FBool b => Ok (if b then 1 else 0)%Z
  | FDec m e => if dec_small m e then Ok (dec_trunc m e) else unmodelled
  | FStr s => match parse_int s with Some z => Ok z | None => LErr LiquidTypeError None end
  | _ => PyExc TypeError
  end.

(** utils/text.py [truncate_chars] (after the fixes: the bound is clamped at 0;
    a string of at most [num] characters is returned unchanged). *)
Definition truncate_chars (val : str) (num : Z) (end_ : str) : str :=
  if (Z.of_nat (length val) <=? num)%Z then val
  else firstn (Z.to_nat (Z.max 0 (num - Z.of_nat (length end_)))) val ++ end_.

(** utils/text.py before the fix of the slice: [val[:num - end_length]] with
    Python's negative-bound slicing.  Kept to state what was wrong. *)
Definition truncate_chars_unfixed (val : str) (num : Z) (end_ : str) : str :=
  if (Z.of_nat (length val) <=? num)%Z then val
  else py_slice val 0 (Some (num - Z.of_nat (length end_)))%Z ++ end_.

(** string.py:237; [None] = argument not given. *)
Definition truncate_f (left : fval) (num end_ : option fval) : res fval :=
  do v <- to_liquid_string left;;
  do n <- match num with None => Ok 50%Z | Some x => to_int_arg x end;;
  do e <- match end_ with None => Ok SLit.ellipsis | Some x => to_liquid_string x end;;
  Ok (FStr (truncate_chars v n e)).

(** [s.split()]: maximal runs of non-whitespace. *)
Fixpoint py_words_go (s : str) (cur : str) : list str :=
  match s with
  | [] => match cur with [] => [] | _ => [rev cur] end
  | c :: r =>
      if py_isspace c then
        match cur with [] => py_words_go r [] | _ => rev cur :: py_words_go r [] end
      else py_words_go r (c :: cur)
  end.
Definition py_words (s : str) : list str := py_words_go s [].

Definition MAX_TRUNC_WORDS : Z := (2 ^ 31 - 1)%Z.

Definition truncatewords_str (v : str) (num : Z) (e : str) : str :=
  let num := if (num <=? 0)%Z then 1%Z else num in
  let words := py_words v in
  if (MAX_TRUNC_WORDS <=? num)%Z then v
  else if (Z.of_nat (length words) <=? num)%Z then join_str [32] words   (* after the fix: <= *)
  else join_str [32] (firstn (Z.to_nat num) words) ++ e.

(** string.py:262 *)
Definition truncatewords_f (left : fval) (num end_ : option fval) : res fval :=
  do v <- to_liquid_string left;;
  do n <- match num with None => Ok 15%Z | Some x => to_int_arg x end;;
  do e <- match end_ with None => Ok SLit.ellipsis | Some x => to_liquid_string x end;;
  Ok (FStr (truncatewords_str v n e)).

(** * newlines *)

(** [RE_LINETERM.sub(rep, s)] for [\r?\n]. *)
Fixpoint lineterm_sub (rep s : str) : str :=
  match s with
  | [] => []
  | 13 :: 10 :: r => rep ++ lineterm_sub rep r
  | 10 :: r => rep ++ lineterm_sub rep r
  | c :: r => c :: lineterm_sub rep r
  end.

Definition strip_newlines_f := str_filter1 (lineterm_sub []).       (* string.py:227 *)
Definition newline_to_br_f := str_filter1 (lineterm_sub SLit.br).   (* string.py:82 *)

(** * escape / escape_once *)

(** [html.escape(s)] (quote=True). *)
Definition html_escape1 (c : N) : str :=
  if c =? 38 then SLit.amp else if c =? 60 then SLit.lt else if c =? 62 then SLit.gt
  else if c =? 34 then SLit.quot else if c =? 39 then SLit.apos else [c].
Definition html_escape (s : str) : str := flat_map html_escape1 s.

Definition escape_f := str_filter1 html_escape.      (* string.py:53 *)

Definition is_alpha (c : N) : bool :=
  ((65 <=? c) && (c <=? 90)) || ((97 <=? c) && (c <=? 122)).
Definition hexval (c : N) : option N :=
  if is_digit c then Some (c - 48)
  else if (65 <=? c) && (c <=? 70) then Some (c - 55)
  else if (97 <=? c) && (c <=? 102) then Some (c - 87)
  else None.

Fixpoint read_digits (base : N) (s : str) (acc : N) (n : nat) : N * nat * str :=
  match s with
  | c :: r =>
      match hexval c with
      | Some d => if d <? base then read_digits base r (acc * base + d) (S n) else (acc, n, s)
      | None => (acc, n, s)
      end
  | [] => (acc, n, s)
  end.

Definition drop_semicolon (s : str) : str := match s with 59 :: r => r | _ => s end.

(** The part of [html.unescape] that is modelled: the five references
    [html.escape] emits (plus [&apos;]) and numeric references of printable
    ASCII; a '&' not followed by a letter or '#' is literal; any other
    reference is [unmodelled].  [fuel] >= length s. *)
Fixpoint html_unescape_fuel (fuel : nat) (s : str) : res str :=
  match fuel with
  | O => Ok s
  | S f =>
      match s with
      | [] => Ok []
      | c :: r =>
        if negb (c =? 38) then do t <- html_unescape_fuel f r;; Ok (c :: t) else
          let named (name rep : str) (k : unit -> res str) : res str :=
            if prefixb name r then do t <- html_unescape_fuel f (skipn (length name) r);; Ok (rep ++ t)
            else k tt in
          match r with
          | 35 :: r1 =>                                   (* &# *)
              let '(base, r2) := match r1 with
                                 | 120 :: r2 | 88 :: r2 => (16, r2)
                                 | _ => (10, r1)
                                 end in
              let '(v, n, rest) := read_digits base r2 0 0 in
              match n with
              | O => do t <- html_unescape_fuel f r;; Ok (38 :: t)     (* no digits: literal *)
              | _ => if (32 <=? v) && (v <=? 126)
                     then do t <- html_unescape_fuel f (drop_semicolon rest);; Ok (v :: t)
                     else unmodelled
              end
          | c :: _ =>
              if is_alpha c then
                named SLit.n_amp [38] (fun _ => named SLit.n_lt [60] (fun _ =>
                named SLit.n_gt [62] (fun _ => named SLit.n_quot [34] (fun _ =>
                named SLit.n_apos [39] (fun _ => unmodelled)))))
              else do t <- html_unescape_fuel f r;; Ok (38 :: t)
          | [] => Ok [38]
          end
      end
  end.

Definition html_unescape (s : str) : res str := html_unescape_fuel (S (length s)) s.

(** string.py:62 [escape_once] = html.escape(html.unescape(val)). *)
Definition escape_once_f (left : fval) : res fval :=
  do v <- to_liquid_string left;; do u <- html_unescape v;; Ok (FStr (html_escape u)).

(** * UTF-8 *)

Definition utf8_encode1 (c : N) : list N :=
  if c <? 128 then [c]
  else if c <? 2048 then [192 + c / 64; 128 + c mod 64]
  else if c <? 65536 then [224 + c / 4096; 128 + (c / 64) mod 64; 128 + c mod 64]
  else [240 + c / 262144; 128 + (c / 4096) mod 64; 128 + (c / 64) mod 64; 128 + c mod 64].
Definition utf8_encode (s : str) : list N := flat_map utf8_encode1 s.

Definition is_cont (b : N) : bool := (128 <=? b) && (b <? 192).

(** Strict UTF-8 decoding ([bytes.decode()]): [None] = UnicodeDecodeError. *)
Fixpoint utf8_decode (bs : list N) : option str :=
  match bs with
  | [] => Some []
  | b0 :: r =>
      if b0 <? 128 then match utf8_decode r with Some t => Some (b0 :: t) | None => None end
      else if (194 <=? b0) && (b0 <? 224) then
        match r with
        | b1 :: r' =>
            if is_cont b1 then
              match utf8_decode r' with
              | Some t => Some (((b0 - 192) * 64 + (b1 - 128)) :: t)
              | None => None
              end
            else None
        | _ => None
        end
      else if (224 <=? b0) && (b0 <? 240) then
        match r with
        | b1 :: b2 :: r' =>
            let c := (b0 - 224) * 4096 + (b1 - 128) * 64 + (b2 - 128) in
            if is_cont b1 && is_cont b2 && (2048 <=? c) && negb ((55296 <=? c) && (c <=? 57343)) then
              match utf8_decode r' with Some t => Some (c :: t) | None => None end
            else None
        | _ => None
        end
      else if (240 <=? b0) && (b0 <? 245) then
        match r with
        | b1 :: b2 :: b3 :: r' =>
            let c := (b0 - 240) * 262144 + (b1 - 128) * 4096 + (b2 - 128) * 64 + (b3 - 128) in
            if is_cont b1 && is_cont b2 && is_cont b3 && (65536 <=? c) && (c <=? 1114111) then
              match utf8_decode r' with Some t => Some (c :: t) | None => None end
            else None
        | _ => None
        end
      else None
  end.

(** A Unicode scalar value (what a Python str without lone surrogates holds). *)
Definition is_scalar (c : N) : bool := (c <=? 1114111) && negb ((55296 <=? c) && (c <=? 57343)).

(** * url_encode / url_decode *)

Definition hexdigit (v : N) : N := if v <? 10 then 48 + v else 55 + v.   (* upper case *)

Definition url_safe (c : N) : bool :=
  is_alpha c || is_digit c || (c =? 95) || (c =? 46) || (c =? 45) || (c =? 126).

Definition pct (b : N) : str := [37; hexdigit (b / 16); hexdigit (b mod 16)].

(** [urllib.parse.quote_plus(s)] *)
Definition quote_plus1 (c : N) : str :=
  if url_safe c then [c] else if c =? 32 then [43] else flat_map pct (utf8_encode1 c).
Definition quote_plus (s : str) : str := flat_map quote_plus1 s.

Definition all_scalar (s : str) : bool := forallb is_scalar s.

(** string.py:297; a lone surrogate cannot be encoded (UnicodeEncodeError). *)
Definition url_encode_f (left : fval) : res fval :=
  do v <- to_liquid_string left;;
  if all_scalar v then Ok (FStr (quote_plus v)) else PyExc UnicodeError.

(** [unquote_to_bytes] on an ASCII run. *)
Fixpoint unq (s : str) : list N :=
  match s with
  | [] => []
  | c :: r =>
      if c =? 37 then
        match r with
        | h1 :: h2 :: r' =>
            match hexval h1, hexval h2 with
            | Some a, Some b => (16 * a + b) :: unq r'
            | _, _ => 37 :: unq r
            end
        | _ => 37 :: unq r
        end
      else c :: unq r
  end.

(** [.decode('utf-8', 'replace')] of a run: invalid bytes (U+FFFD policy) are
    outside the model. *)
Definition decode_run (run : str) : res str :=
  match utf8_decode (unq run) with Some t => Ok t | None => unmodelled end.

(** [unquote]: maximal ASCII runs are percent-decoded, the rest is kept.
    [run] is the current ASCII run, reversed. *)
Fixpoint unquote_runs (s : str) (run : str) : res str :=
  match s with
  | [] => decode_run (rev run)
  | c :: r =>
      if c <? 128 then unquote_runs r (c :: run)
      else do a <- decode_run (rev run);; do b <- unquote_runs r [];; Ok (a ++ c :: b)
  end.

Definition plus_to_space (s : str) : str := map (fun c => if c =? 43 then 32 else c) s.

(** [urllib.parse.unquote_plus(s)] *)
Definition unquote_plus (s : str) : res str :=
  let s := plus_to_space s in
  if existsb (fun c => c =? 37) s then unquote_runs s [] else Ok s.

(** string.py:306 *)
Definition url_decode_f (left : fval) : res fval :=
  do v <- to_liquid_string left;; do u <- unquote_plus v;; Ok (FStr u).

(** * base64 (shopify/filters/_base64.py) *)

(** The alphabet: [url = true] is the URL-safe one. *)
Definition b64_char (url : bool) (v : N) : N :=
  if v <? 26 then 65 + v
  else if v <? 52 then 97 + (v - 26)
  else if v <? 62 then 48 + (v - 52)
  else if v =? 62 then (if url then 45 else 43)
  else (if url then 95 else 47).

(** [binascii]'s table: the standard alphabet only. *)
Definition b64_val (c : N) : option N :=
  if (65 <=? c) && (c <=? 90) then Some (c - 65)
  else if (97 <=? c) && (c <=? 122) then Some (c - 71)
  else if (48 <=? c) && (c <=? 57) then Some (c + 4)
  else if c =? 43 then Some 62
  else if c =? 47 then Some 63
  else None.

Fixpoint b64_encode_bytes (url : bool) (bs : list N) : str :=
  match bs with
  | [] => []
  | [a] => [b64_char url (a / 4); b64_char url ((a mod 4) * 16); 61; 61]
  | [a; b] => [b64_char url (a / 4); b64_char url ((a mod 4) * 16 + b / 16);
               b64_char url ((b mod 16) * 4); 61]
  | a :: b :: c :: r =>
      b64_char url (a / 4) :: b64_char url ((a mod 4) * 16 + b / 16)
      :: b64_char url ((b mod 16) * 4 + c / 64) :: b64_char url (c mod 64)
      :: b64_encode_bytes url r
  end.

(** [binascii.a2b_base64] in non-strict mode: characters outside the alphabet
    are skipped; a completed pad sequence stops the parse; leftover data
    characters are "Incorrect padding" ([None] = binascii.Error).
    [qp] = position in the quad, [left] = pending bits, [pads] = '=' seen. *)
Fixpoint a2b_base64 (s : str) (qp : nat) (left : N) (pads : nat) : option (list N) :=
  match s with
  | [] => match qp with O => Some [] | _ => None end
  | c :: r =>
      if c =? 61 then
        if (2 <=? qp)%nat && (4 <=? qp + S pads)%nat then Some []
        else a2b_base64 r qp left (if (2 <=? qp)%nat then S pads else pads)
      else
        match b64_val c with
        | None => a2b_base64 r qp left pads
        | Some v =>
            match qp with
            | 0%nat => a2b_base64 r 1 v 0
            | 1%nat => match a2b_base64 r 2 (v mod 16) 0 with
                       | Some t => Some ((left * 4 + v / 16) :: t) | None => None end
            | 2%nat => match a2b_base64 r 3 (v mod 4) 0 with
                       | Some t => Some ((left * 16 + v / 4) :: t) | None => None end
            | _ => match a2b_base64 r 0 0 0 with
                   | Some t => Some ((left * 64 + v) :: t) | None => None end
            end
        end
  end.

Definition all_ascii (s : str) : bool := forallb (fun c => c <? 128) s.

Definition url_translate (s : str) : str :=
  map (fun c => if c =? 45 then 43 else if c =? 95 then 47 else c) s.

Definition b64_encode_f (url : bool) (left : fval) : res fval :=
  do v <- to_liquid_string left;;
  if all_scalar v then Ok (FStr (b64_encode_bytes url (utf8_encode v))) else PyExc UnicodeError.

(** [base64.b64decode(val).decode()]: non-ASCII text -> ValueError; bad
    padding -> binascii.Error -> LiquidValueError; bytes that are not UTF-8
    -> UnicodeDecodeError. *)
Definition b64_decode_f (url : bool) (left : fval) : res fval :=
  do v <- to_liquid_string left;;
  if negb (all_ascii v) then PyExc ValueError
  else match a2b_base64 (if url then url_translate v else v) 0 0 0 with
       | None => LErr LiquidValueError None
       | Some bs => match utf8_decode bs with
                    | Some t => Ok (FStr t)
                    | None => PyExc UnicodeError
                    end
       end.
