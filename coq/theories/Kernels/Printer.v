(** Kernels/Printer.v — MODEL for C12: [__str__] of expressions and the
    expression parsers that read the printed text back.

    Everything here is a transcription of liquid2 (commit under test, after the
    [fix:] patches in /verif/proposed_fixes/C12):

      liquid2/builtin/expressions.py   every [__str__], FilteredExpression.parse,
                                       Filter.parse, parse_primitive,
                                       parse_boolean_primitive & friends,
                                       LambdaExpression.parse, LoopExpression.parse,
                                       parse_keyword_arguments, ...
      liquid2/unescape.py              unescape
      liquid2/token.py                 Token.__str__, PathToken.__str__,
                                       _expression_as_string (the printer of
                                       [{% liquid %}] line statements)
      the tags' [__str__]              as a flat sequence of markup items

    Printers produce *expression tokens with layout*: the token kinds the lexer
    produces inside [{{ }}] / [{% %}] (liquid2/token.py TokenType; PATH and RANGE
    tokens are composite, exactly like PathToken / RangeToken) plus a layout
    token [TSp] for each space character [__str__] writes.  [show] renders a
    token list to characters (what the correspondence run compares with
    [str(expr)]), [strip] removes the layout (what the lexer does), and the
    parsers consume stripped lists.  Template strings (a string with ${...} in it) are outside
    this model (tie and oracle only).

    Model file: definitions only. *)
From LQ Require Import Base.Str.
From Coq Require Import String Ascii.
Local Open Scope N_scope.
Local Open Scope list_scope.

(** * Character and string constants *)

Fixpoint lit (s : string) : str :=
  match s with
  | EmptyString => []
  | String a s' => N_of_ascii a :: lit s'
  end.

Definition c_bs : N := 92.   (* \ *)
Definition c_sq : N := 39.   (* single quote *)
Definition c_dq : N := 34.   (* double quote *)
Definition c_dollar : N := 36.
Definition c_lbrace : N := 123.

Inductive quote := SQ | DQ.
Definition qchar (q : quote) : N := match q with SQ => c_sq | DQ => c_dq end.
Definition quote_eqb (a b : quote) : bool :=
  match a, b with SQ, SQ | DQ, DQ => true | _, _ => false end.

Fixpoint memN (c : N) (s : str) : bool :=
  match s with [] => false | x :: s' => (c =? x) || memN c s' end.

(** * String literals: writing (fixed [_escape_string], expressions.py) *)

(** Four lowercase hex digits (format spec 04x) for n < 65536. *)
Definition hexd (n : N) : N := if n <? 10 then 48 + n else 87 + n.
Definition hex4 (n : N) : str :=
  [hexd (n / 4096); hexd ((n / 256) mod 16); hexd ((n / 16) mod 16); hexd (n mod 16)].

Definition is_surrogate (c : N) : bool := (55296 <=? c) && (c <=? 57343).

Section Escape.
  (** CPython's [str.isprintable] per code point: a Unicode-database table, kept
      abstract.  The theorems hold for every such predicate. *)
  Variable printable : N -> bool.

  (** One character of [_escape_string]; [next] is the following character. *)
  Definition esc1 (q : quote) (c : N) (next : option N) : str :=
    if (c =? qchar q) || (c =? c_bs) then [c_bs; c]
    else if (c =? c_dollar) && (match next with Some d => d =? c_lbrace | None => false end)
         then [c_bs; c_dollar]
    else if c =? 10 then [c_bs; 110]        (* \n *)
    else if c =? 13 then [c_bs; 114]        (* \r *)
    else if c =? 9 then [c_bs; 116]         (* \t *)
    else if c =? 8 then [c_bs; 98]          (* \b *)
    else if c =? 12 then [c_bs; 102]        (* \f *)
    else if printable c || is_surrogate c then [c]   (* a lone surrogate can only be written raw *)
    else if 65535 <? c then
      let d := c - 65536 in
      c_bs :: 117 :: hex4 (55296 + d / 1024) ++ c_bs :: 117 :: hex4 (56320 + d mod 1024)
    else c_bs :: 117 :: hex4 c.

  Fixpoint escape_string (q : quote) (s : str) : str :=
    match s with
    | [] => []
    | c :: s' => esc1 q c (hd_error s') ++ escape_string q s'
    end.

  (** [_choose_quote]: the quote [repr()] would choose. *)
  Definition choose_quote (text : str) : quote :=
    if memN c_sq text && negb (memN c_dq text) then DQ else SQ.

  (** [_string_repr]: quote kind and the text between the quotes. *)
  Definition string_repr (s : str) : quote * str :=
    let q := choose_quote s in (q, escape_string q s).
End Escape.

(** * String literals: reading (liquid2/unescape.py) *)

Definition syntax_error {A} : res A := LErr LiquidSyntaxError None.

(** [_parse_hex_digits] on one character (digits.encode() makes every non-ASCII
    character fail). *)
Definition hexval (c : N) : option N :=
  if (48 <=? c) && (c <=? 57) then Some (c - 48)
  else if (65 <=? c) && (c <=? 70) then Some (c - 55)
  else if (97 <=? c) && (c <=? 102) then Some (c - 87)
  else None.

Definition parse_hex4 (a b c d : N) : option N :=
  match hexval a, hexval b, hexval c, hexval d with
  | Some x, Some y, Some z, Some w => Some (((x * 16 + y) * 16 + z) * 16 + w)
  | _, _, _, _ => None
  end.

Definition is_high_surrogate (n : N) : bool := (55296 <=? n) && (n <=? 56319).
Definition is_low_surrogate (n : N) : bool := (56320 <=? n) && (n <=? 57343).

(** [unescape]: the index loop of unescape.py as recursion on the remaining
    text; each step consumes at least one character, [fuel] bounds the steps.
    [code_point & 0x3FF] is [mod 1024], [<< 10] is [* 1024], [|] of disjoint
    bit ranges is [+]. *)
Fixpoint unescape_fuel (fuel : nat) (s : str) : res str :=
  match fuel with
  | O => OutOfFuel
  | S fuel' =>
    match s with
    | [] => Ok []
    | c :: r =>
      if c =? c_bs then
        match r with
        | [] => PyExc IndexError            (* value[index] past the end *)
        | e :: r1 =>
          let simple (ch : N) := do t <- unescape_fuel fuel' r1;; Ok (ch :: t) in
          if e =? c_dq then simple c_dq
          else if e =? c_dollar then simple c_dollar
          else if e =? c_bs then simple c_bs
          else if e =? 47 then simple 47
          else if e =? 98 then simple 8
          else if e =? 102 then simple 12
          else if e =? 110 then simple 10
          else if e =? 114 then simple 13
          else if e =? 116 then simple 9
          else if e =? 117 then
            match r1 with
            | a :: b :: c' :: d :: r2 =>
              match parse_hex4 a b c' d with
              | None => syntax_error
              | Some cp =>
                if is_low_surrogate cp then syntax_error
                else if is_high_surrogate cp then
                  match r2 with
                  | b1 :: u1 :: a2 :: b2 :: c2 :: d2 :: r3 =>
                    if (b1 =? c_bs) && (u1 =? 117) then
                      match parse_hex4 a2 b2 c2 d2 with
                      | None => syntax_error
                      | Some lo =>
                        if is_low_surrogate lo then
                          let full := 65536 + ((cp mod 1024) * 1024 + lo mod 1024) in
                          do t <- unescape_fuel fuel' r3;; Ok (full :: t)
                        else syntax_error
                      end
                    else syntax_error
                  | _ => syntax_error
                  end
                else if cp <? 8 then syntax_error     (* _string_from_code_point *)
                else do t <- unescape_fuel fuel' r2;; Ok (cp :: t)
              end
            | _ => syntax_error                        (* incomplete escape sequence *)
            end
          else syntax_error                            (* unknown escape sequence *)
        end
      else if c <? 8 then syntax_error                 (* invalid character *)
      else do t <- unescape_fuel fuel' r;; Ok (c :: t)
    end
  end.

Definition unescape (s : str) : res str := unescape_fuel (S (List.length s)) s.

(** [str.replace] of backslash-quote by quote (single quoted strings):
    leftmost, non-overlapping. *)
Fixpoint replace_sq (s : str) : str :=
  match s with
  | [] => []
  | c :: r =>
    match r with
    | d :: r' => if (c =? c_bs) && (d =? c_sq) then c_sq :: replace_sq r' else c :: replace_sq r
    | [] => [c]
    end
  end.

(** The value of a string token (parse_primitive, SINGLE/DOUBLE_QUOTE_STRING). *)
Definition string_value (q : quote) (raw : str) : res str :=
  match q with
  | SQ => unescape (replace_sq raw)
  | DQ => unescape raw
  end.

(** * Words *)

(** [RE_PROPERTY.fullmatch] = the lexer's WORD rule:
    [[\u0080-￿a-zA-Z_][\u0080-￿a-zA-Z0-9_-]*]. *)
Definition is_word_start (c : N) : bool :=
  ((97 <=? c) && (c <=? 122)) || ((65 <=? c) && (c <=? 90)) || (c =? 95)
  || ((128 <=? c) && (c <=? 65535)).
Definition is_word_char (c : N) : bool :=
  is_word_start c || ((48 <=? c) && (c <=? 57)) || (c =? 45).
Definition is_property (s : str) : bool :=
  match s with
  | [] => false
  | c :: r => is_word_start c && forallb is_word_char r
  end.

(** Lexer.KEYWORD_MAP: words that are lexed as their own token type. *)
Definition keywords : list str :=
  map lit ["true"; "false"; "and"; "or"; "in"; "not"; "contains"; "nil"; "null";
           "if"; "else"; "with"; "required"; "as"; "for"]%string.
(** token.RESERVED_WORDS (added by the fix): keywords plus [empty], [blank]. *)
Definition reserved_words : list str := keywords ++ map lit ["empty"; "blank"]%string.
Definition is_keyword (s : str) : bool := mem_str s keywords.
Definition is_reserved (s : str) : bool := mem_str s reserved_words.
(** A WORD token: matches the WORD rule and is not a keyword. *)
Definition is_word (s : str) : bool := is_property s && negb (is_keyword s).

(** * Numbers *)

(** [to_int(float(spelling))] for an INT token whose spelling denotes the
    integer [z] exactly: round to the nearest double (ties to even), overflow
    raises OverflowError (parse_primitive, expressions.py). *)
Definition int_of_float_of (z : Z) : res Z :=
  let a := Z.abs z in
  if (a <? 2 ^ 53)%Z then Ok z
  else
    let e := (Z.log2 a - 52)%Z in
    let q := (a / 2 ^ e)%Z in
    let r := (a mod 2 ^ e)%Z in
    let half := (2 ^ (e - 1))%Z in
    let q' := if (half <? r)%Z || ((r =? half)%Z && Z.odd q) then (q + 1)%Z else q in
    let v := (q' * 2 ^ e)%Z in
    if (2 ^ 1024 <=? v)%Z then PyExc OverflowError
    else Ok (if (z <? 0)%Z then (- v)%Z else v).

(** A float value is represented by CPython's [repr] of it (shortest
    round-tripping spelling): mantissa text such as [-1.5] or [1], optional
    exponent text such as [+16] or [-05].  [float(repr(x)) = x] is CPython's. *)
Inductive frepr :=
| FFin (mant : str) (exp : option str)
| FInf (neg : bool)
| FNan.

(** * Paths *)

(** The segments of a [Path] (AST): unescaped strings, ints, nested paths. *)
Inductive path :=
| PEnd
| PName (s : str) (r : path)
| PIndex (z : Z) (r : path)
| PSub (p : path) (r : path).

(** The segments of a [PathToken] as the printed text spells them: the first
    word bare, [.name], a quoted segment in brackets, [[index]], [[nested]].  The
    lexer keeps, for each string segment, the source text between the quotes
    (with backslash-quote already replaced in single quoted segments). *)
Inductive tpath :=
| TPEnd
| TPRoot (s : str) (r : tpath)
| TPDot (s : str) (r : tpath)
| TPStr (q : quote) (raw : str) (r : tpath)
| TPIdx (z : Z) (r : tpath)
| TPSub (p : tpath) (r : tpath).

(** * Tokens *)

Inductive binop := OEq | ONe | OLt | OGt | OLe | OGe | OContains | OIn | OAnd | OOr.

(** Tokens that are a whole primitive on their own (and may bound a range). *)
Inductive atok :=
| AWord (s : str)
| AStr (q : quote) (raw : str)
| AInt (z : Z)               (* the integer the spelling denotes *)
| AFloat (f : frepr)         (* repr of float(spelling) *)
| APath (p : tpath)
| ATrue | AFalse | ANil
| AOther (text : str).       (* printed text that is no primitive token (e.g. [-inf]) *)

Inductive tok :=
| TSp                        (* layout: one space; never reaches a parser *)
| TA (a : atok)
| TRange (a b : atok)        (* RangeToken *)
| TOp (o : binop)
| TNot | TIf | TElse | TFor | TWith | TAs | TRequired
| TPipe | TDPipe | TColon | TComma | TLParen | TRParen | TArrow | TAssign
| TOther (text : str).       (* any other token the lexer can produce (template
                                strings, [!], [?], a stray [..]): no parser accepts it *)

Definition is_sp (t : tok) : bool := match t with TSp => true | _ => false end.
Definition strip (ts : list tok) : list tok := filter (fun t => negb (is_sp t)) ts.

(** * Rendering tokens to characters *)

Fixpoint uint_digits (u : Decimal.uint) : str :=
  match u with
  | Decimal.Nil => []
  | Decimal.D0 u' => 48 :: uint_digits u' | Decimal.D1 u' => 49 :: uint_digits u'
  | Decimal.D2 u' => 50 :: uint_digits u' | Decimal.D3 u' => 51 :: uint_digits u'
  | Decimal.D4 u' => 52 :: uint_digits u' | Decimal.D5 u' => 53 :: uint_digits u'
  | Decimal.D6 u' => 54 :: uint_digits u' | Decimal.D7 u' => 55 :: uint_digits u'
  | Decimal.D8 u' => 56 :: uint_digits u' | Decimal.D9 u' => 57 :: uint_digits u'
  end.

(** [repr(int)] *)
Definition show_Z (z : Z) : str :=
  match z with
  | Z0 => [48]
  | Zpos p => uint_digits (Pos.to_uint p)
  | Zneg p => 45 :: uint_digits (Pos.to_uint p)
  end.

(** Fixed [FloatLiteral.__str__]. *)
Definition show_float (f : frepr) : str :=
  match f with
  | FFin m None => m
  | FFin m (Some e) => if memN 46 m then m ++ 101 :: e else m ++ lit ".0e" ++ e
  | FInf false => lit "1.0e999"         (* a float literal that denotes infinity *)
  | FInf true => lit "-1.0e999"
  | FNan => lit "nan"
  end.

Definition show_quoted (q : quote) (raw : str) : str := qchar q :: raw ++ [qchar q].

Fixpoint show_tpath (p : tpath) : str :=
  match p with
  | TPEnd => []
  | TPRoot s r => s ++ show_tpath r
  | TPDot s r => 46 :: s ++ show_tpath r
  | TPStr q raw r => 91 :: show_quoted q raw ++ 93 :: show_tpath r
  | TPIdx z r => 91 :: show_Z z ++ 93 :: show_tpath r
  | TPSub p' r => 91 :: show_tpath p' ++ 93 :: show_tpath r
  end.

Definition show_atok (a : atok) : str :=
  match a with
  | AWord s => s
  | AStr q raw => show_quoted q raw
  | AInt z => show_Z z
  | AFloat f => show_float f
  | APath p => show_tpath p
  | ATrue => lit "true" | AFalse => lit "false" | ANil => lit "nil"
  | AOther s => s
  end.

Definition show_op (o : binop) : str :=
  match o with
  | OEq => lit "==" | ONe => lit "!=" | OLt => lit "<" | OGt => lit ">"
  | OLe => lit "<=" | OGe => lit ">=" | OContains => lit "contains" | OIn => lit "in"
  | OAnd => lit "and" | OOr => lit "or"
  end.

Definition show_tok (t : tok) : str :=
  match t with
  | TSp => [32]
  | TA a => show_atok a
  | TRange a b => 40 :: show_atok a ++ lit ".." ++ show_atok b ++ [41]
  | TOp o => show_op o
  | TNot => lit "not" | TIf => lit "if" | TElse => lit "else" | TFor => lit "for"
  | TWith => lit "with" | TAs => lit "as" | TRequired => lit "required"
  | TPipe => lit "|" | TDPipe => lit "||" | TColon => lit ":" | TComma => lit ","
  | TLParen => lit "(" | TRParen => lit ")" | TArrow => lit "=>" | TAssign => lit "="
  | TOther s => s
  end.

Definition show (ts : list tok) : str := List.concat (map show_tok ts).

(** * Expression AST *)

(** What [parse_primitive] returns (template strings excluded). *)
Inductive prim :=
| PNil | PTrue | PFalse | PEmpty | PBlank
| PInt (z : Z)
| PFloat (f : frepr)
| PStr (s : str)
| PPath (p : path)
| PRange (a b : prim)
| PContinue.                 (* the keyword [continue] after [offset:] (Continue) *)

(** Trees built by [parse_boolean_primitive]. *)
Inductive bexpr :=
| BPrim (p : prim)
| BNot (e : bexpr)
| BBin (o : binop) (l r : bexpr).

Inductive argval :=
| AVPrim (p : prim)
| AVLambda (params : list str) (body : bexpr).

Inductive arg :=
| APos (v : argval)
| AKw (name : str) (v : argval).

Record filt := { f_name : str; f_args : list arg }.

(** [FilteredExpression.left]: a primitive or an [ArrayLiteral]. *)
Inductive left :=
| LPrim (p : prim)
| LArray (items : list prim).

Inductive fexpr :=
| FFiltered (l : left) (filters : list filt)
| FTernary (l : left) (filters : list filt) (cond : bexpr) (alt : option prim)
           (alt_filters : list filt) (tail_filters : list filt).

Record loopexpr := {
  lp_ident : str; lp_iter : left;
  lp_limit : option prim; lp_offset : option prim; lp_cols : option prim;
  lp_reversed : bool }.

(** * Printers: each [__str__] of expressions.py, as tokens with layout *)

Fixpoint join {A} (sep : list A) (xs : list (list A)) : list A :=
  match xs with
  | [] => []
  | x :: r => match r with [] => x | _ => x ++ sep ++ join sep r end
  end.

Definition prec (o : binop) : nat :=
  match o with
  | OOr => 3 | OAnd => 4
  | OEq | ONe | OLt | OGt | OLe | OGe => 5
  | OContains | OIn => 6
  end%nat.

(** CPython's [str.isspace] on the Basic Multilingual Plane (what [\s] matches
    in the lexer's rules); a name that starts with such a character would be
    swallowed after the opening of an output statement. *)
Definition is_uspace (c : N) : bool :=
  ((9 <=? c) && (c <=? 13)) || ((28 <=? c) && (c <=? 32)) || (c =? 133) || (c =? 160)
  || (c =? 5760) || ((8192 <=? c) && (c <=? 8202)) || (c =? 8232) || (c =? 8233)
  || (c =? 8239) || (c =? 8287) || (c =? 12288).
Definition starts_uspace (s : str) : bool :=
  match s with c :: _ => is_uspace c | [] => false end.

(** The words that start the options of a loop expression. *)
Definition is_loop_keyword (w : str) : bool :=
  str_eqb w (lit "limit") || str_eqb w (lit "reversed")
  || str_eqb w (lit "cols") || str_eqb w (lit "offset").

Section Print.
  Variable printable : N -> bool.

  Definition quoted_seg (s : str) (r : tpath) : tpath :=
    let (q, raw) := string_repr printable s in TPStr q raw r.

  (** [Path._str(nested)] (fixed): [first] is [index == 0]. *)
  Fixpoint print_path (nested first : bool) (p : path) : tpath :=
    match p with
    | PEnd => TPEnd
    | PName s r =>
      let r' := print_path nested false r in
      if negb (is_property s) then quoted_seg s r'
      else if negb first then TPDot s r'
      else if negb nested
              && (((match r with PEnd => true | _ => false end) && is_reserved s) || starts_uspace s)
           then quoted_seg s r'
      else TPRoot s r'
    | PIndex z r => TPIdx z (print_path nested false r)
    | PSub p' r => TPSub (print_path true true p') (print_path nested false r)
    end.

  (** The token a printed path lexes to: a bare word not followed by [.] or
      [[] is a WORD token; as the start of a range ([(a..b)]) it is followed
      by a dot and the lexer makes it a PATH token. *)
  Definition path_atok (range_start : bool) (p : path) : atok :=
    match print_path false true p with
    | TPRoot s TPEnd => if range_start then APath (TPRoot s TPEnd) else AWord s
    | tp => APath tp
    end.

  Definition prim_atok (range_start : bool) (p : prim) : atok :=
    match p with
    | PNil => ANil | PTrue => ATrue | PFalse => AFalse
    | PEmpty => AWord (lit "empty") | PBlank => AWord (lit "blank")
    | PInt z => AInt z
    | PFloat (FFin m e) => AFloat (FFin m e)
    | PFloat (FInf neg) => AFloat (FInf neg)
    | PFloat FNan => AWord (lit "nan")             (* [nan] is lexed as a word *)
    | PStr s => let (q, raw) := string_repr printable s in AStr q raw
    | PPath pa => path_atok range_start pa
    | PRange _ _ => AOther (lit "(..)")            (* a range cannot bound a range *)
    | PContinue => AWord (lit "continue")
    end.

  (** [str()] of a primitive: one token. *)
  Definition print_prim (p : prim) : tok :=
    match p with
    | PRange a b => TRange (prim_atok true a) (prim_atok false b)
    | _ => TA (prim_atok false p)
    end.

  (** [_boolean_str_in(expression, parent_precedence, left)] (fixed): tokens
      and whether the text ends with the operand of an open [not]. *)
  Fixpoint pb (e : bexpr) (pp : nat) (lf : bool) : list tok * bool :=
    match e with
    | BPrim p => ([print_prim p], false)
    | BNot x =>
      let xs := fst (pb x 5%nat false) in
      if lf then (TLParen :: TNot :: TSp :: xs ++ [TRParen], false)
      else (TNot :: TSp :: xs, true)
    | BBin o l r =>
      let q := prec o in
      let ls := fst (pb l q true) in
      let (rs, open_not) := pb r q false in
      let ex := ls ++ TSp :: TOp o :: TSp :: rs in
      if (q <? pp)%nat || (lf && ((q =? pp)%nat || open_not))
      then (TLParen :: ex ++ [TRParen], false)
      else (ex, open_not)
    end.

  (** [BooleanExpression.__str__], and [__str__] of each logical / comparison /
      membership expression. *)
  Definition print_bool (e : bexpr) : list tok := fst (pb e 0%nat false).

  Definition sep_comma : list tok := [TComma; TSp].
  Definition sep_pipe : list tok := [TSp; TPipe; TSp].
  Definition word (s : str) : tok := TA (AWord s).

  (** [LambdaExpression.__str__] / a primitive argument value. *)
  Definition print_argval (v : argval) : list tok :=
    match v with
    | AVPrim p => [print_prim p]
    | AVLambda [x] body => word x :: TSp :: TArrow :: TSp :: print_bool body
    | AVLambda ps body =>
      TLParen :: join sep_comma (map (fun x => [word x]) ps)
      ++ TRParen :: TSp :: TArrow :: TSp :: print_bool body
    end.

  (** [PositionalArgument.__str__], [KeywordArgument.__str__]. *)
  Definition print_arg (a : arg) : list tok :=
    match a with
    | APos v => print_argval v
    | AKw n v => word n :: TColon :: print_argval v
    end.

  (** [Filter.__str__] (fixed: arguments joined by [, ]). *)
  Definition print_filter (f : filt) : list tok :=
    word (f_name f) ::
    match f_args f with
    | [] => []
    | args => TColon :: TSp :: join sep_comma (map print_arg args)
    end.

  (** [" | " + " | ".join(filters)] or nothing. *)
  Definition print_filters (fs : list filt) : list tok :=
    List.concat (map (fun f => sep_pipe ++ print_filter f) fs).

  (** [ArrayLiteral.__str__] (fixed: trailing comma for one item). *)
  Definition print_left (l : left) : list tok :=
    match l with
    | LPrim p => [print_prim p]
    | LArray [x] => [print_prim x; TComma]
    | LArray xs => join sep_comma (map (fun x => [print_prim x]) xs)
    end.

  (** [FilteredExpression.__str__], [TernaryFilteredExpression.__str__]. *)
  Definition print_fexpr (e : fexpr) : list tok :=
    match e with
    | FFiltered l fs => print_left l ++ print_filters fs
    | FTernary l fs c alt afs tfs =>
      print_left l ++ print_filters fs ++ TSp :: TIf :: TSp :: print_bool c
      ++ (match alt with Some a => [TSp; TElse; TSp; print_prim a] | None => [] end)
      ++ print_filters afs
      ++ (match tfs with
          | [] => []
          | _ => TSp :: TDPipe :: TSp :: join sep_pipe (map print_filter tfs)
          end)
    end.

  (** [LoopExpression.__str__]. *)
  Definition print_loop_opt (name : string) (v : option prim) : list tok :=
    match v with
    | Some p => [TSp; word (lit name); TColon; print_prim p]
    | None => []
    end.

  (** [_not_a_bare_word(expression, words)] (added by the fix): a variable
      named like one of [words] is written in bracket notation. *)
  Definition print_not_bare (is_special : str -> bool) (p : prim) : tok :=
    match p with
    | PPath (PName w PEnd) => if is_special w then TA (APath (quoted_seg w TPEnd)) else print_prim p
    | _ => print_prim p
    end.

  Definition is_continue (w : str) : bool := str_eqb w (lit "continue").

  (** The iterable of a loop: in an array literal with more than one item the
      second item must not be a bare option name. *)
  Definition print_loop_iter (l : left) : list tok :=
    match l with
    | LArray (x :: y :: r) =>
      join sep_comma ([print_prim x] :: [print_not_bare is_loop_keyword y]
                      :: map (fun p => [print_prim p]) r)
    | _ => print_left l
    end.

  Definition print_loop (l : loopexpr) : list tok :=
    word (lp_ident l) :: TSp :: TOp OIn :: TSp :: print_loop_iter (lp_iter l)
    ++ print_loop_opt "limit" (lp_limit l)
    ++ (match lp_offset l with
        | Some p => [TSp; word (lit "offset"); TColon; print_not_bare is_continue p]
        | None => []
        end)
    ++ print_loop_opt "cols" (lp_cols l)
    ++ (if lp_reversed l then [TSp; word (lit "reversed")] else []).

  (** Keyword arguments of tags ([with], [include], [render], [translate]):
      [", ".join(str(arg))]. *)
  Definition print_kwargs (kws : list (str * prim)) : list tok :=
    join sep_comma (map (fun kv => [word (fst kv); TColon; print_prim (snd kv)]) kws).

  (** [_AnyExpression.__str__] of a [when] tag. *)
  Definition print_when (ps : list prim) : list tok :=
    join sep_comma (map (fun p => [print_prim p]) ps).
End Print.

(** * Parsers *)

Fixpoint path_of_tpath (t : tpath) : res path :=
  match t with
  | TPEnd => Ok PEnd
  | TPRoot s r | TPDot s r =>
    do s' <- unescape s;; do r' <- path_of_tpath r;; Ok (PName s' r')
  | TPStr q raw r =>
    do s' <- string_value q raw;; do r' <- path_of_tpath r;; Ok (PName s' r')
  | TPIdx z r => do r' <- path_of_tpath r;; Ok (PIndex z r')
  | TPSub p r => do p' <- path_of_tpath p;; do r' <- path_of_tpath r;; Ok (PSub p' r')
  end.

(** [parse_primitive] on a token that is not a range. *)
Definition parse_atok (a : atok) : res prim :=
  match a with
  | ATrue => Ok PTrue | AFalse => Ok PFalse | ANil => Ok PNil
  | AWord s =>
    if str_eqb s (lit "empty") then Ok PEmpty
    else if str_eqb s (lit "blank") then Ok PBlank
    else do s' <- unescape s;; Ok (PPath (PName s' PEnd))
  | AInt z => do z' <- int_of_float_of z;; Ok (PInt z')
  | AFloat f => Ok (PFloat f)
  | AStr q raw => do s <- string_value q raw;; Ok (PStr s)
  | APath p => do p' <- path_of_tpath p;; Ok (PPath p')
  | AOther _ => syntax_error
  end.

(** [parse_primitive(env, token)]; [None] is the end-of-input token. *)
Definition parse_primitive (t : option tok) : res prim :=
  match t with
  | Some (TA a) => parse_atok a
  | Some (TRange a b) => do x <- parse_atok a;; do y <- parse_atok b;; Ok (PRange x y)
  | _ => syntax_error
  end.

(** [parse_boolean_primitive] (PRECEDENCES, BINARY_OPERATORS),
    [parse_infix_expression], [parse_grouped_expression],
    [LogicalNotExpression.parse].  [pbp n p ts] parses one expression at
    precedence [p] and returns it with the unread tokens. *)
Fixpoint pbp (n : nat) (p : nat) (ts : list tok) {struct n} : res (bexpr * list tok) :=
  match n with
  | O => OutOfFuel
  | S n' =>
    do lr <-
      match ts with
      | TNot :: r =>                       (* LogicalNotExpression.parse: default precedence *)
        do er <- pbp n' 1%nat r;; Ok (BNot (fst er), snd er)
      | TLParen :: r =>                    (* parse_grouped_expression *)
        do er <- pbp n' 1%nat r;;
        match snd er with
        | TRParen :: r' => Ok (fst er, r')
        | _ => syntax_error
        end
      | t :: r => do pr <- parse_primitive (Some t);; Ok (BPrim pr, r)
      | [] => syntax_error
      end;;
    ploop n' p (fst lr) (snd lr)
  end
with ploop (n : nat) (p : nat) (lhs : bexpr) (ts : list tok) {struct n}
  : res (bexpr * list tok) :=
  match n with
  | O => OutOfFuel
  | S n' =>
    match ts with
    | TOp o :: r =>
      if (prec o <? p)%nat then Ok (lhs, ts)
      else do er <- pbp n' (prec o) r;; ploop n' p (BBin o lhs (fst er)) (snd er)
    | _ => Ok (lhs, ts)
    end
  end.

Definition fuel_of (ts : list tok) : nat := (2 * List.length ts + 2)%nat.

(** [BooleanExpression.parse(env, stream)] (not inline: [expect_eos]). *)
Definition parse_bool (ts : list tok) : res bexpr :=
  do er <- pbp (fuel_of ts) 1%nat ts;;
  match snd er with [] => Ok (fst er) | _ => syntax_error end.

(** [LambdaExpression.parse]: returns the lambda and the tokens after its body. *)
Fixpoint parse_params (n : nat) (ts : list tok) : res (list str * list tok) :=
  match n with
  | O => OutOfFuel
  | S n' =>
    match ts with
    | TRParen :: _ => Ok ([], ts)
    | TA (AWord x) :: r =>
      let r' := match r with TComma :: r1 => r1 | _ => r end in
      do pr <- parse_params n' r';; Ok (x :: fst pr, snd pr)
    | _ => syntax_error                  (* parse_identifier, or EOI *)
    end
  end.

Definition parse_lambda (n : nat) (ts : list tok) : res (argval * list tok) :=
  match ts with
  | TA (AWord x) :: r =>
    match r with
    | TArrow :: r1 => do er <- pbp n 1%nat r1;; Ok (AVLambda [x] (fst er), snd er)
    | _ => syntax_error
    end
  | TLParen :: r =>
    do pr <- parse_params n r;;
    match fst pr with
    | [] => syntax_error                 (* expected at least one arrow function parameter *)
    | _ =>
      match snd pr with
      | TRParen :: TArrow :: r1 =>
        do er <- pbp n 1%nat r1;; Ok (AVLambda (fst pr) (fst er), snd er)
      | _ => syntax_error
      end
    end
  | _ => syntax_error                    (* expected an arrow function parameter *)
  end.

Definition is_arrow (t : option tok) : bool :=
  match t with Some TArrow => true | _ => false end.

(** The argument loop of [Filter.parse] (after the colon). *)
Fixpoint parse_args (n : nat) (ts : list tok) (acc : list arg) : res (list arg * list tok) :=
  match n with
  | O => OutOfFuel
  | S n' =>
    match ts with
    | TA (AWord w) :: r =>
      match r with
      | TColon :: r1 | TAssign :: r1 =>          (* a keyword argument *)
        if is_arrow (hd_error (tl r1)) then
          do lr <- parse_lambda n' r1;; parse_args n' (snd lr) (acc ++ [AKw w (fst lr)])
        else
          do p <- parse_primitive (hd_error r1);;
          parse_args n' (tl r1) (acc ++ [AKw w (AVPrim p)])
      | TArrow :: _ =>
        do lr <- parse_lambda n' ts;; parse_args n' (snd lr) (acc ++ [APos (fst lr)])
      | _ =>                                     (* a single word is a path *)
        do w' <- unescape w;;
        parse_args n' r (acc ++ [APos (AVPrim (PPath (PName w' PEnd)))])
      end
    | TA (APath _) :: r
    | TA (AInt _) :: r | TA (AFloat _) :: r | TA (AStr _ _) :: r
    | TA AFalse :: r | TA ATrue :: r | TA ANil :: r | TRange _ _ :: r =>
      do p <- parse_primitive (hd_error ts);; parse_args n' r (acc ++ [APos (AVPrim p)])
    | TLParen :: _ =>
      do lr <- parse_lambda n' ts;; parse_args n' (snd lr) (acc ++ [APos (fst lr)])
    | TComma :: r => parse_args n' r acc
    | _ => Ok (acc, ts)
    end
  end.

(** [Filter.parse(env, stream, delim=...)]: [dp] says whether [||] is a
    delimiter too. *)
Fixpoint parse_filters (n : nat) (dp : bool) (ts : list tok) : res (list filt * list tok) :=
  match n with
  | O => OutOfFuel
  | S n' =>
    let go (r : list tok) :=
      match r with
      | TA (AWord name) :: r1 =>
        do ar <- match r1 with
                 | TColon :: r2 => parse_args n' r2 []
                 | _ => Ok ([], r1)
                 end;;
        do fr <- parse_filters n' dp (snd ar);;
        Ok ({| f_name := name; f_args := fst ar |} :: fst fr, snd fr)
      | _ => syntax_error                  (* stream.expect(TokenType.WORD) *)
      end in
    match ts with
    | TPipe :: r => go r
    | TDPipe :: r => if dp then go r else Ok ([], ts)
    | _ => Ok ([], ts)
    end
  end.

(** [ArrayLiteral.parse]: [ts] starts at the comma after the first item. *)
Fixpoint parse_array (ts : list tok) (acc : list prim) : res (list prim * list tok) :=
  match ts with
  | TComma :: r =>
    match r with
    | [] => Ok (acc, r)                    (* trailing comma *)
    | t :: r' =>
      match parse_primitive (Some t) with
      | Ok p => parse_array r' (acc ++ [p])
      | LErr LiquidSyntaxError _ => Ok (acc, r)
      | LErr c pos => LErr c pos
      | PyExc k => PyExc k
      | OutOfFuel => OutOfFuel
      end
    end
  | _ => Ok (acc, ts)
  end.

Definition parse_left (ts : list tok) : res (left * list tok) :=
  do p <- parse_primitive (hd_error ts);;
  match tl ts with
  | TComma :: _ => do ir <- parse_array (tl ts) [p];; Ok (LArray (fst ir), snd ir)
  | r => Ok (LPrim p, r)
  end.

(** [TernaryFilteredExpression.parse], after [if]. *)
Definition parse_ternary (n : nat) (l : left) (fs : list filt) (ts : list tok) : res fexpr :=
  do cr <- pbp n 1%nat ts;;
  do ar <-
    match snd cr with
    | TElse :: r =>
      do a <- parse_primitive (hd_error r);;
      do fr <- match tl r with
               | TPipe :: _ => parse_filters n false (tl r)
               | r' => Ok ([], r')
               end;;
      Ok (Some a, fst fr, snd fr)
    | r => Ok (None, [], r)
    end;;
  let '(alt, afs, r1) := ar in
  do tr <- match r1 with
           | TDPipe :: _ => parse_filters n true r1
           | _ => Ok ([], r1)
           end;;
  match snd tr with
  | [] => Ok (FTernary l fs (fst cr) alt afs (fst tr))
  | _ => syntax_error                      (* expect_eos *)
  end.

(** [FilteredExpression.parse]. *)
Definition parse_filtered (ts : list tok) : res fexpr :=
  let n := fuel_of ts in
  do lr <- parse_left ts;;
  do fr <- parse_filters n false (snd lr);;
  match snd fr with
  | TIf :: r => parse_ternary n (fst lr) (fst fr) r
  | [] => Ok (FFiltered (fst lr) (fst fr))
  | _ => syntax_error                      (* expect_eos *)
  end.

(** [LoopExpression.parse]. *)

Definition is_colon_or_assign (t : tok) : bool :=
  match t with TColon | TAssign => true | _ => false end.

Fixpoint parse_loop_opts (ts : list tok) (l : loopexpr) : res loopexpr :=
  match ts with
  | [] => Ok l
  | TComma :: r => parse_loop_opts r l
  | TA (AWord w) :: r =>
    if str_eqb w (lit "reversed") then
      parse_loop_opts r {| lp_ident := lp_ident l; lp_iter := lp_iter l; lp_limit := lp_limit l;
                           lp_offset := lp_offset l; lp_cols := lp_cols l; lp_reversed := true |}
    else if str_eqb w (lit "limit") || str_eqb w (lit "cols") || str_eqb w (lit "offset") then
      match r with
      | sp :: r1 =>
        if is_colon_or_assign sp then
          match r1 with
          | v :: r2 =>
            do p <- (if str_eqb w (lit "offset")
                        && (match v with TA (AWord c) => str_eqb c (lit "continue") | _ => false end)
                     then Ok PContinue
                     else parse_primitive (Some v));;
            parse_loop_opts r2
              (if str_eqb w (lit "limit") then
                 {| lp_ident := lp_ident l; lp_iter := lp_iter l; lp_limit := Some p;
                    lp_offset := lp_offset l; lp_cols := lp_cols l; lp_reversed := lp_reversed l |}
               else if str_eqb w (lit "cols") then
                 {| lp_ident := lp_ident l; lp_iter := lp_iter l; lp_limit := lp_limit l;
                    lp_offset := lp_offset l; lp_cols := Some p; lp_reversed := lp_reversed l |}
               else
                 {| lp_ident := lp_ident l; lp_iter := lp_iter l; lp_limit := lp_limit l;
                    lp_offset := Some p; lp_cols := lp_cols l; lp_reversed := lp_reversed l |})
          | [] => syntax_error             (* parse_primitive(EOI) *)
          end
        else syntax_error                  (* expect_one_of(COLON, ASSIGN) *)
      | [] => syntax_error
      end
    else syntax_error
  | _ => syntax_error
  end.

Definition parse_loop (ts : list tok) : res loopexpr :=
  match ts with
  | TA (AWord id) :: TOp OIn :: r =>
    do it <- parse_primitive (hd_error r);;
    let mk (i : left) := {| lp_ident := id; lp_iter := i; lp_limit := None; lp_offset := None;
                            lp_cols := None; lp_reversed := false |} in
    match tl r with
    | TComma :: r1 =>
      if (match r1 with TA (AWord w) :: _ => is_loop_keyword w | _ => false end)
      then parse_loop_opts (tl r) (mk (LPrim it))
      else
        do ir <- parse_array (tl r) [it];;
        match snd ir with
        | [] => Ok (mk (LArray (fst ir)))
        | _ => syntax_error                (* expect_eos *)
        end
    | r1 => parse_loop_opts r1 (mk (LPrim it))
    end
  | _ => syntax_error
  end.

(** [parse_keyword_arguments]: [skipped] is true right after a comma. *)
Fixpoint parse_kwargs (skipped : bool) (ts : list tok) : res (list (str * prim)) :=
  match ts with
  | [] => Ok []
  | TComma :: r => if skipped then syntax_error else parse_kwargs true r
  | TA (AWord k) :: r =>
    match r with
    | sp :: r1 =>
      if is_colon_or_assign sp then
        match r1 with
        | v :: r2 =>
          do p <- parse_primitive (Some v);;
          do rest <- parse_kwargs false r2;; Ok ((k, p) :: rest)
        | [] => syntax_error
        end
      else syntax_error
    | [] => syntax_error
    end
  | _ => syntax_error
  end.

(** [CaseTag._parse_when_expression]. *)
Fixpoint parse_when_rest (ts : list tok) : res (list prim) :=
  match ts with
  | [] => Ok []
  | sp :: r =>
    match sp with
    | TComma | TOp OOr =>
      match r with
      | v :: r1 => do p <- parse_primitive (Some v);; do rest <- parse_when_rest r1;; Ok (p :: rest)
      | [] => syntax_error
      end
    | _ => syntax_error                    (* expect_eos *)
    end
  end.

Definition parse_when (ts : list tok) : res (list prim) :=
  do p <- parse_primitive (hd_error ts);;
  do rest <- parse_when_rest (tl ts);; Ok (p :: rest).

(** * Markup: the [__str__] of nodes, as a flat sequence of items

    [str(template)] is the concatenation of the [__str__] of its nodes, and a
    block node's [__str__] is its start tag, its children, its branch tags and
    its end tag in order; so the text of a template is determined by the flat
    sequence of its markup items.  The head of a tag (what stands between the
    tag name and the closing delimiter) is built from the expression printers
    above.  [{% liquid %}] prints its *tokens* with their source spelling
    (LinesToken.__str__) and is outside this model. *)

Inductive wc := WDefault | WMinus | WPlus | WTilde.
Definition show_wc (w : wc) : str :=
  match w with WDefault => [] | WMinus => [45] | WPlus => [43] | WTilde => [126] end.

Inductive head :=
| HNone                                  (* else, endif, break, ... *)
| HExpr (e : fexpr)                      (* echo *)
| HAssign (name : str) (e : fexpr)
| HBool (b : bexpr)                      (* if, unless, elsif *)
| HLoop (l : loopexpr)                   (* for, tablerow *)
| HPrim (p : prim)                       (* case, extends (a string literal) *)
| HWhen (ps : list prim)
| HWord (s : str)                        (* capture *)
| HIdent (s : str)                       (* increment, decrement, endblock *)
| HCycle (name : option str) (items : list prim)
| HBlock (name : str) (required : bool)
| HInclude (name : prim) (var : option (bool * prim)) (alias : option str)
           (args : list (str * prim))    (* include, render; the bool is [for] *)
| HKwargs (kws : list (str * prim))      (* with, translate *)
| HMacro (name : str) (params : list (str * option prim))
| HCall (name : str) (args : list prim) (kwargs : list (str * prim)).

Section PrintMarkup.
  Variable printable : N -> bool.

  (** [string_or_identifier_str] (added by the fix). *)
  Definition print_ident (s : str) : tok :=
    if is_property s && negb (is_reserved s) then word s
    else let (q, raw) := string_repr printable s in TA (AStr q raw).

  Definition print_kw (kv : str * prim) : list tok :=
    [word (fst kv); TColon; print_prim printable (snd kv)].

  Definition print_head (h : head) : list tok :=
    match h with
    | HNone => []
    | HExpr e => print_fexpr printable e
    | HAssign n e => word n :: TSp :: TAssign :: TSp :: print_fexpr printable e
    | HBool b => print_bool printable b
    | HLoop l => print_loop printable l
    | HPrim p => [print_prim printable p]
    | HWhen ps => print_when printable ps
    | HWord s => [word s]
    | HIdent s => [print_ident s]
    | HCycle name items =>
      (match name with Some n => [print_ident n; TColon; TSp] | None => [] end)
      ++ join sep_comma (map (fun p => [print_prim printable p]) items)
    | HBlock n req => print_ident n :: (if req then [TSp; TRequired] else [])
    | HInclude name var alias args =>
      print_prim printable name
      :: (match var with
          | Some (is_for, v) => [TSp; if is_for then TFor else TWith; TSp; print_prim printable v]
          | None => []
          end)
      ++ (match alias with
          | Some a => match a with [] => [] | _ => [TSp; TAs; TSp; print_ident a] end
          | None => []
          end)
      ++ (match args with [] => [] | _ => TComma :: TSp :: print_kwargs printable args end)
    | HKwargs kws => print_kwargs printable kws
    | HMacro n params =>
      print_ident n
      :: (match params with
          | [] => []
          | _ => TSp :: join sep_comma
                   (map (fun nv => match snd nv with
                                   | Some v => [word (fst nv); TColon; print_prim printable v]
                                   | None => [word (fst nv)]
                                   end) params)
          end)
    | HCall n args kwargs =>
      print_ident n :: TSp
      :: join sep_comma (map (fun p => [print_prim printable p]) args ++ map print_kw kwargs)
    end.
End PrintMarkup.

Inductive item :=
| IText (s : str)                                      (* ContentNode; opaque text *)
| IOutput (l r : wc) (e : list tok)                    (* OutputNode *)
| ITag (l r : wc) (name : str) (e : list tok)          (* any tag delimiter of a node *)
| IComment (hashes : str) (l r : wc) (text : str)      (* CommentToken.__str__ *)
| IBlockComment (l r : wc) (text : str)                (* BlockCommentToken.__str__ *)
| IInlineComment (l r : wc) (text : str)               (* InlineCommentToken.__str__ *)
| IRaw (a b c d : wc) (text : str).                    (* RawNode.__str__ *)

Definition show_item (i : item) : str :=
  match i with
  | IText s => s
  | IOutput l r e => lit "{{" ++ show_wc l ++ [32] ++ show e ++ [32] ++ show_wc r ++ lit "}}"
  | ITag l r name e =>
    lit "{%" ++ show_wc l ++ [32] ++ name ++ [32]
    ++ (match e with [] => [] | _ => show e ++ [32] end) ++ show_wc r ++ lit "%}"
  | IComment h l r text => 123 :: h ++ show_wc l ++ text ++ show_wc r ++ h ++ [125]
  | IBlockComment l r text =>
    lit "{%" ++ show_wc l ++ lit " comment %}" ++ text ++ lit "{% endcomment " ++ show_wc r ++ lit "%}"
  | IInlineComment l r text => lit "{%" ++ show_wc l ++ lit " #" ++ text ++ show_wc r ++ lit "%}"
  | IRaw a b c d text =>
    lit "{%" ++ show_wc a ++ lit " raw " ++ show_wc b ++ lit "%}" ++ text
    ++ lit "{%" ++ show_wc c ++ lit " endraw " ++ show_wc d ++ lit "%}"
  end.

Definition show_items (is : list item) : str := List.concat (map show_item is).

(** * Decidable equalities and canonical forms for the correspondence runner *)

Definition str_eq_dec : forall a b : str, {a = b} + {a <> b} := list_eq_dec N.eq_dec.
Definition quote_eq_dec : forall a b : quote, {a = b} + {a <> b}.
Proof. decide equality. Defined.
Definition frepr_eq_dec : forall a b : frepr, {a = b} + {a <> b}.
Proof.
  decide equality; try apply Bool.bool_dec; try apply str_eq_dec.
  destruct exp as [x|], exp0 as [y|]; try (right; discriminate); [|left; reflexivity].
  destruct (str_eq_dec x y); [left; congruence|right; congruence].
Defined.
Definition path_eq_dec : forall a b : path, {a = b} + {a <> b}.
Proof. decide equality; try apply str_eq_dec; apply Z.eq_dec. Defined.
Definition tpath_eq_dec : forall a b : tpath, {a = b} + {a <> b}.
Proof. decide equality; try apply str_eq_dec; try apply Z.eq_dec; apply quote_eq_dec. Defined.
Definition binop_eq_dec : forall a b : binop, {a = b} + {a <> b}.
Proof. decide equality. Defined.
Definition atok_eq_dec : forall a b : atok, {a = b} + {a <> b}.
Proof.
  decide equality; try apply str_eq_dec; try apply Z.eq_dec; try apply quote_eq_dec;
    try apply frepr_eq_dec; apply tpath_eq_dec.
Defined.
Definition tok_eq_dec : forall a b : tok, {a = b} + {a <> b}.
Proof. decide equality; try apply atok_eq_dec; try apply binop_eq_dec; apply str_eq_dec. Defined.
Definition prim_eq_dec : forall a b : prim, {a = b} + {a <> b}.
Proof.
  decide equality; try apply str_eq_dec; try apply Z.eq_dec; try apply frepr_eq_dec;
    apply path_eq_dec.
Defined.
Definition bexpr_eq_dec : forall a b : bexpr, {a = b} + {a <> b}.
Proof. decide equality; try apply prim_eq_dec; apply binop_eq_dec. Defined.
Definition argval_eq_dec : forall a b : argval, {a = b} + {a <> b}.
Proof.
  decide equality; try apply prim_eq_dec; try apply bexpr_eq_dec.
  apply (list_eq_dec str_eq_dec).
Defined.
Definition arg_eq_dec : forall a b : arg, {a = b} + {a <> b}.
Proof. decide equality; try apply argval_eq_dec; apply str_eq_dec. Defined.
Definition filter_eq_dec : forall a b : filt, {a = b} + {a <> b}.
Proof. decide equality; [apply (list_eq_dec arg_eq_dec)|apply str_eq_dec]. Defined.
Definition left_eq_dec : forall a b : left, {a = b} + {a <> b}.
Proof. decide equality; [apply prim_eq_dec|apply (list_eq_dec prim_eq_dec)]. Defined.
Definition option_eq_dec {A} (d : forall a b : A, {a = b} + {a <> b})
  : forall a b : option A, {a = b} + {a <> b}.
Proof. decide equality. Defined.
Definition fexpr_eq_dec : forall a b : fexpr, {a = b} + {a <> b}.
Proof.
  decide equality; try apply (list_eq_dec filter_eq_dec); try apply left_eq_dec;
    try apply bexpr_eq_dec; apply (option_eq_dec prim_eq_dec).
Defined.
Definition loopexpr_eq_dec : forall a b : loopexpr, {a = b} + {a <> b}.
Proof.
  decide equality; try apply Bool.bool_dec; try apply (option_eq_dec prim_eq_dec);
    try apply left_eq_dec; apply str_eq_dec.
Defined.

Definition eqb_of {A} (d : forall a b : A, {a = b} + {a <> b}) (a b : A) : bool :=
  if d a b then true else false.

(** What the lexer keeps of a token: a PathToken does not remember how a
    string segment was spelled. *)
Fixpoint tpath_canon (p : tpath) : tpath :=
  match p with
  | TPEnd => TPEnd
  | TPRoot s r | TPDot s r => TPStr DQ s (tpath_canon r)
  | TPStr q raw r => TPStr DQ (match q with SQ => replace_sq raw | DQ => raw end) (tpath_canon r)
  | TPIdx z r => TPIdx z (tpath_canon r)
  | TPSub p' r => TPSub (tpath_canon p') (tpath_canon r)
  end.
Definition atok_canon (a : atok) : atok :=
  match a with APath p => APath (tpath_canon p) | _ => a end.
Definition tok_canon (t : tok) : tok :=
  match t with
  | TA a => TA (atok_canon a)
  | TRange a b => TRange (atok_canon a) (atok_canon b)
  | _ => t
  end.
Definition toks_eqb (a b : list tok) : bool :=
  eqb_of (list_eq_dec tok_eq_dec) (map tok_canon a) (map tok_canon b).
