(** Kernels/Trim.v — model of whitespace control (property C18).

    Transcribes, function by function:
    - [WhitespaceControl]                     liquid2/token.py:391-411
    - [Environment.trim]                      liquid2/environment.py:234-264
      with [str.strip()] / [str.isspace()]'s whitespace set (CPython
      [_PyUnicode_IsWhitespace]) as an explicit decidable predicate
    - [Parser.parse] / [Parser.parse_block]   liquid2/parser.py:34-143
      (the [left_trim] local and the [stream.trim_carry] state,
      liquid2/stream.py:28), over a *token tree*: the flat token list the parser
      consumes, grouped by the block structure the block tags recover
    - [Content.parse] (peeks the right marker)  liquid2/builtin/content.py:60-83
    - [ContentNode.blank] on the untrimmed text liquid2/builtin/content.py:41
    - [RawTag.parse] (trims the inner text), [RawNode.blank]
                                               liquid2/builtin/tags/raw_tag.py
    - [IfTag/UnlessTag/ForTag/CaseTag/CaptureTag/WithTag.parse] (which token
      ends which [parse_block]) and the [blank] each node class computes
    - [BlockNode.render_to_output] (blank block suppression through NullIO)
                                               liquid2/ast.py:146-169
    - the [render_to_output] of the node classes above (a small renderer whose
      conditions / loop lengths / case subjects / variable values are data).

    The model is of the code AFTER the proposed fixes of C18
    (proposed_fixes/C18: RawNode.blank; CaseTag.parse carries the right marker
    of the first when/else/endcase tag) and after /repo 4e4e9da (case else iff
    no when matched).

    Model file: definitions only.  Proofs: Proofs/Trim_proofs.v. *)
From LQ Require Export Base.Str.
Local Open Scope N_scope.

(** * Whitespace control markers (token.py:391) *)

Inductive wc := Plus | Minus | Tilde | Default.

Definition wc_eqb (a b : wc) : bool :=
  match a, b with
  | Plus, Plus | Minus, Minus | Tilde, Tilde | Default, Default => true
  | _, _ => false
  end.

(** * CPython's whitespace set: [str.isspace], [str.strip()], [str.split()]

    \t \n \v \f \r, \x1c-\x1f, space, \x85, \xa0, U+1680, U+2000-U+200A,
    U+2028, U+2029, U+202F, U+205F, U+3000.  (U+200B is NOT whitespace.)
    Validated against CPython for every code point < 0x110000 by harness/c18.py. *)
Definition is_ws (c : char) : bool :=
  ((9 <=? c) && (c <=? 13)) || ((28 <=? c) && (c <=? 32))
  || (c =? 133) || (c =? 160) || (c =? 5760)
  || ((8192 <=? c) && (c <=? 8202))
  || (c =? 8232) || (c =? 8233) || (c =? 8239) || (c =? 8287) || (c =? 12288).

(** The argument of [strip("\r\n")]. *)
Definition is_crlf (c : char) : bool := (c =? 13) || (c =? 10).

(** [str.lstrip], [str.rstrip], [str.strip] for a set of characters. *)
Fixpoint lstrip (p : char -> bool) (s : str) : str :=
  match s with
  | [] => []
  | c :: s' => if p c then lstrip p s' else s
  end.
Definition rstrip (p : char -> bool) (s : str) : str := rev (lstrip p (rev s)).
Definition strip (p : char -> bool) (s : str) : str := rstrip p (lstrip p s).

Definition all_ws (s : str) : bool := forallb is_ws s.

(** [str.isspace()]: non-empty and every character is whitespace. *)
Definition py_isspace (s : str) : bool :=
  match s with [] => false | _ => all_ws s end.

(** [erase_ws] deletes every [isspace] character (used by the theorems only). *)
Definition erase_ws (s : str) : str := filter (fun c => negb (is_ws c)) s.

(** * Environment.trim (environment.py:234-264) *)

Definition resolve (dt w : wc) : wc :=
  match w with Default => dt | _ => w end.

Definition trim (dt : wc) (text : str) (left_trim right_trim : wc) : str :=
  let l := resolve dt left_trim in
  let r := resolve dt right_trim in
  if wc_eqb l r then
    match l with
    | Minus => strip is_ws text
    | Tilde => strip is_crlf text
    | _ => text
    end
  else
    let text1 :=
      match l with
      | Minus => lstrip is_ws text
      | Tilde => lstrip is_crlf text
      | _ => text
      end in
    match r with
    | Minus => rstrip is_ws text1
    | Tilde => rstrip is_crlf text1
    | _ => text1
    end.

(** * Configuration *)

Record cfg := {
  default_trim : wc;   (* Environment.default_trim; __init__ maps DEFAULT to PLUS *)
  suppress : bool      (* Environment.suppress_blank_control_flow_blocks *)
}.

(** * The token tree

    The parser consumes a flat list of content / comment / raw / output / lines
    / tag tokens.  Block tags recover the nesting by calling
    [Parser.parse_block] up to their [end_block] tags; the tree below is that
    flat list with the nesting made explicit.  [flatten] (below) gives the flat
    list back.

    Variables, conditions, loop lengths and case subjects are indexes into the
    render data: this fragment's expressions never inspect text. *)

Inductive bkind :=
| KIf (c : nat)          (* {% if b_c %} *)
| KUnless (c : nat)      (* {% unless b_c %} *)
| KFor (n : nat)         (* {% for i in a_n %}: only the length of a_n matters *)
| KCase (k : nat)        (* {% case k_k %} *)
| KCapture (v : nat)     (* {% capture v_v %} *)
| KWith.                 (* {% with w: 1 %} *)

Inductive guard :=
| GCond (c : nat)            (* {% elsif b_c %} *)
| GWhen (vals : list nat)    (* {% when 1, 2 %} *)
| GElse.                     (* {% else %} *)

Inductive tree :=
| TNil
| TContent (txt : str) (rest : tree)
    (* a ContentToken *)
| TLeaf (via_tag : bool) (l r : wc) (w : option nat) (rest : tree)
    (* markup without a block that writes the value of variable [w] or nothing.
       via_tag = false: OutputToken / CommentToken (three kinds) / LinesToken,
       whose right marker the parser reads from [token.wc[-1]];
       via_tag = true: a TagToken without a block (echo, assign), whose right
       marker travels through [stream.trim_carry]. *)
| TRaw (w0 w1 w2 w3 : wc) (txt : str) (rest : tree)
    (* RawToken: {%w0 raw w1%}txt{%w2 endraw w3%} *)
| TBlock (k : bkind) (l r : wc) (body : tree) (secs : tsecs) (el er : wc) (rest : tree)
    (* {%l tag r%} body sections {%el endtag er%}.  For [KCase], [body] is what
       stands between the case tag and the first when/else/endcase tag. *)
with tsecs :=
| SNil
| SCons (g : guard) (l r : wc) (body : tree) (rest : tsecs).
    (* {%l elsif/when/else r%} body *)

(** * The AST the parser builds (only what rendering and [blank] depend on) *)

Inductive ast :=
| ANil
| AContent (txt : str) (lt rt : wc) (rest : ast)   (* ContentNode(text, left_trim, right_trim) *)
| ALeaf (w : option nat) (rest : ast)              (* OutputNode/EchoNode (Some) or CommentNode/AssignNode (None) *)
| ARaw (txt : str) (rest : ast)                    (* RawNode(text), text already trimmed *)
| ABlock (k : bkind) (body : ast) (secs : asecs) (rest : ast)
with asecs :=
| ASNil
| ASCons (g : guard) (body : ast) (rest : asecs).

(** ** What the block tags accept (everything else is a LiquidSyntaxError) *)

(** if/unless: elsif* else?  (if_tag.py:143-172, unless_tag.py) *)
Fixpoint secs_conds_else (s : tsecs) : bool :=
  match s with
  | SNil => true
  | SCons (GCond _) _ _ _ rest => secs_conds_else rest
  | SCons GElse _ _ _ SNil => true
  | _ => false
  end.

(** case: when* else?  (case_tag.py:160-183) *)
Fixpoint secs_whens_else (s : tsecs) : bool :=
  match s with
  | SNil => true
  | SCons (GWhen _) _ _ _ rest => secs_whens_else rest
  | SCons GElse _ _ _ SNil => true
  | _ => false
  end.

Definition secs_ok (k : bkind) (s : tsecs) : bool :=
  match k with
  | KIf _ | KUnless _ => secs_conds_else s
  | KCase _ => secs_whens_else s
  | KFor _ =>                                     (* for_tag.py:189-198 *)
      match s with SNil => true | SCons GElse _ _ _ SNil => true | _ => false end
  | KCapture _ | KWith =>
      match s with SNil => true | _ => false end
  end.

(** case_tag.py:132-158: between the case tag and the first when/else/endcase
    tag only one whitespace-only content token may stand; it is dropped. *)
Definition lead_ok (body : tree) : bool :=
  match body with
  | TNil => true
  | TContent txt TNil => py_isspace txt
  | _ => false
  end.

Fixpoint wf (t : tree) : bool :=
  match t with
  | TNil => true
  | TContent _ rest => wf rest
  | TLeaf _ _ _ _ rest => wf rest
  | TRaw _ _ _ _ _ rest => wf rest
  | TBlock k _ _ body secs _ _ rest =>
      (match k with KCase _ => lead_ok body | _ => wf body end)
      && secs_ok k secs && wf_secs secs && wf rest
  end
with wf_secs (s : tsecs) : bool :=
  match s with
  | SNil => true
  | SCons _ _ _ body rest => wf body && wf_secs rest
  end.

(** ** Parser.parse / Parser.parse_block *)

(** [stream.peek()] as [Content.parse] uses it (content.py:72-78): the left
    marker [wc[0]] of the next token when that is a tag / output / comment / raw
    / lines token, nothing when it is a content token or EOI.  [after] is the
    token that follows the sequence: the tag that ends the enclosing block
    ([Some] of its left marker) or EOI ([None]). *)
Definition first_left (t : tree) (after : option wc) : option wc :=
  match t with
  | TNil => after
  | TContent _ _ => None
  | TLeaf _ l _ _ _ => Some l
  | TRaw w0 _ _ _ _ _ => Some w0
  | TBlock _ l _ _ _ _ _ _ => Some l
  end.

Definition peeked (o : option wc) : wc :=
  match o with Some m => m | None => Default end.

(** The tag token that ends the block before sections [s]: the next
    elsif/when/else tag, or the end tag. *)
Definition next_tag (s : tsecs) (el er : wc) : wc * wc :=
  match s with
  | SCons _ l r _ _ => (l, r)
  | SNil => (el, er)
  end.

(** The loop of [parse] / [parse_block] (parser.py:49-82, 101-141).
    [left] is the local [left_trim], [carry] is [stream.trim_carry]; the result
    is the node list and the value of [stream.trim_carry] when the loop stops.
    [parse_secs] is the [while stream.is_tag(...)] part of the block tags: each
    [parse_block] call starts with [left_trim = stream.trim_carry], and the tag
    token that stops it stores its right marker in [stream.trim_carry]
    (parser.py:120-123). *)
Fixpoint parse_items (dt left carry : wc) (after : option wc) (t : tree)
  {struct t} : ast * wc :=
  match t with
  | TNil => (ANil, carry)
  | TContent txt rest =>
      (* content.parse(stream, left_trim=left_trim); left_trim = default_trim *)
      let rt := peeked (first_left rest after) in
      let '(ns, c) := parse_items dt dt carry after rest in
      (AContent txt left rt ns, c)
  | TLeaf false _ r w rest =>
      (* comment / output / lines: left_trim = token.wc[-1] *)
      let '(ns, c) := parse_items dt r carry after rest in
      (ALeaf w ns, c)
  | TLeaf true _ r w rest =>
      (* tag: stream.trim_carry = token.wc[-1]; tag.parse(stream);
         left_trim = stream.trim_carry *)
      let carry1 := r in
      let '(ns, c) := parse_items dt carry1 carry1 after rest in
      (ALeaf w ns, c)
  | TRaw _ w1 w2 w3 txt rest =>
      (* left_trim = token.wc[-1]; RawTag.parse trims the inner text *)
      let '(ns, c) := parse_items dt w3 carry after rest in
      (ARaw (trim dt txt w1 w2) ns, c)
  | TBlock k _ r body secs el er rest =>
      let carry1 := r in                                   (* parser.py:63 *)
      let '(nl, nr) := next_tag secs el er in
      let b :=
        match k with
        | KCase _ => ANil        (* the leading whitespace is stepped over *)
        | _ => fst (parse_items dt carry1 carry1 (Some nl) body)   (* parse_block *)
        end in
      (* the tag that ended parse_block stored its right marker; for case the
         (fixed) CaseTag.parse stores the first tag's right marker itself *)
      let carry2 := nr in
      let '(ss, carry3) := parse_secs dt carry2 secs el er in
      let '(ns, c) := parse_items dt carry3 carry3 after rest in   (* left_trim = stream.trim_carry *)
      (ABlock k b ss ns, c)
  end
with parse_secs (dt carry : wc) (s : tsecs) (el er : wc) {struct s} : asecs * wc :=
  match s with
  | SNil => (ASNil, carry)
  | SCons g _ _ body rest =>
      let '(nl, nr) := next_tag rest el er in
      let b := fst (parse_items dt carry carry (Some nl) body) in  (* parse_block *)
      let carry' := nr in                                          (* parser.py:120 *)
      let '(ss, c) := parse_secs dt carry' rest el er in
      (ASCons g b ss, c)
  end.

(** [Environment.parse]: TokenStream starts with [trim_carry = DEFAULT],
    [Parser.parse] with [left_trim = default_trim]. *)
Definition parse (cf : cfg) (t : tree) : res ast :=
  if wf t then
    Ok (fst (parse_items (default_trim cf) (default_trim cf) Default None t))
  else LErr LiquidSyntaxError None.

(** * [blank] as the node constructors compute it *)

(** ContentNode: [not text or text.isspace()] on the untrimmed text. *)
Definition content_blank (txt : str) : bool :=
  match txt with [] => true | _ => py_isspace txt end.

Fixpoint blank_nodes (a : ast) : bool :=       (* all(node.blank for node in nodes) *)
  match a with
  | ANil => true
  | AContent txt _ _ rest => content_blank txt && blank_nodes rest
  | ALeaf w rest =>
      (* OutputNode/EchoNode: False; CommentNode/AssignNode: default True *)
      match w with Some _ => false | None => blank_nodes rest end
  | ARaw txt rest =>
      (* RawNode (fixed): not text *)
      match txt with [] => blank_nodes rest | _ => false end
  | ABlock k body secs rest =>
      (match k with
       | KCapture _ => true              (* CaptureNode keeps the default True *)
       | _ => blank_nodes body && blank_secs secs
       end) && blank_nodes rest
  end
with blank_secs (s : asecs) : bool :=
  match s with
  | ASNil => true
  | ASCons _ body rest => blank_nodes body && blank_secs rest
  end.

(** * Rendering *)

Record data := {
  d_str : nat -> str;      (* value of variable v_n (a string) *)
  d_cond : nat -> bool;    (* truth of b_n *)
  d_count : nat -> nat;    (* len(a_n) *)
  d_int : nat -> nat       (* value of k_n *)
}.

Definition store := nat -> str.   (* variables: data overridden by captures *)

Definition upd (st : store) (k : nat) (v : str) : store :=
  fun n => if Nat.eqb n k then v else st n.

(** Write [x]'s text, then what [f] writes from the variables [x] left. *)
Definition andthen (x : str * store) (f : store -> str * store) : str * store :=
  let '(o1, st1) := x in
  let '(o2, st2) := f st1 in
  (o1 ++ o2, st2).

(** A for loop: render the block [n] times, threading the variables. *)
Fixpoint iter (n : nat) (f : store -> str * store) (st : store) : str * store :=
  match n with
  | O => ([], st)
  | S n' => andthen (f st) (iter n' f)
  end.

(** [capture]: the block's text goes to variable [v], nothing is written. *)
Definition captured (v : nat) (x : str * store) : str * store :=
  let '(o, st') := x in ([], upd st' v o).

Definition guard_holds (d : data) (g : guard) : bool :=
  match g with GCond c => d_cond d c | GElse => true | GWhen _ => false end.

Definition when_matches (kv : nat) (g : guard) : bool :=
  match g with GWhen vals => existsb (Nat.eqb kv) vals | _ => false end.

(** Does section [g] of a case block run, [matched] telling whether an earlier
    when matched: a when block iff it matches, the else block iff none did. *)
Definition fires (kv : nat) (matched : bool) (g : guard) : bool :=
  match g with
  | GWhen _ => when_matches kv g
  | GElse => negb matched
  | GCond _ => false
  end.

(** [BlockNode.render_to_output] (ast.py:151-157) of node list [f]: a blank
    block is rendered into a NullIO (its assignments still happen). *)
Definition block_node (cf : cfg) (is_blank : bool) (f : store -> str * store)
  (st : store) : str * store :=
  if suppress cf && is_blank then ([], snd (f st)) else f st.

Fixpoint render_nodes (cf : cfg) (d : data) (a : ast) (st : store) {struct a}
  : str * store :=
  match a with
  | ANil => ([], st)
  | AContent txt l r rest =>
      (* buffer.write(env.trim(text, left_trim, right_trim)) *)
      andthen (trim (default_trim cf) txt l r, st) (render_nodes cf d rest)
  | ALeaf w rest =>
      andthen (match w with Some v => st v | None => [] end, st) (render_nodes cf d rest)
  | ARaw txt rest =>
      andthen (txt, st) (render_nodes cf d rest)
  | ABlock k body secs rest =>
      let blk := block_node cf (blank_nodes body) (render_nodes cf d body) in
      andthen
        match k with
        | KIf c =>                               (* if_tag.py:71-81 *)
            if d_cond d c then blk st else render_first cf d secs st
        | KUnless c =>                           (* unless_tag.py:71-83 *)
            if negb (d_cond d c) then blk st else render_first cf d secs st
        | KFor n =>                              (* for_tag.py:66-96 *)
            match d_count d n with
            | O => render_first cf d secs st
            | S m => iter (S m) blk st
            end
        | KCase kv =>                            (* case_tag.py:76-90 *)
            render_case cf d (d_int d kv) false secs st
        | KCapture v =>                          (* capture_tag.py:50-55 *)
            captured v (blk st)
        | KWith => blk st                        (* with_tag.py *)
        end
        (render_nodes cf d rest)
  end
(** the first alternative whose condition holds (elsif ... else) *)
with render_first (cf : cfg) (d : data) (s : asecs) (st : store) {struct s}
  : str * store :=
  match s with
  | ASNil => ([], st)
  | ASCons g body rest =>
      if guard_holds d g
      then block_node cf (blank_nodes body) (render_nodes cf d body) st
      else render_first cf d rest st
  end
(** every matching when block; the else block iff none matched *)
with render_case (cf : cfg) (d : data) (kv : nat) (matched : bool) (s : asecs)
  (st : store) {struct s} : str * store :=
  match s with
  | ASNil => ([], st)
  | ASCons g body rest =>
      let matched' := matched || when_matches kv g in
      if fires kv matched g then
        andthen (block_node cf (blank_nodes body) (render_nodes cf d body) st)
                (render_case cf d kv matched' rest)
      else render_case cf d kv matched' rest st
  end.

(** [Environment.from_string(src).render(data)] for the source whose tokens
    are [t]: the top-level node list is not a BlockNode (template.py:118). *)
Definition map_res {A B} (f : A -> B) (r : res A) : res B :=
  match r with
  | Ok a => Ok (f a)
  | LErr c p => LErr c p
  | PyExc k => PyExc k
  | OutOfFuel => OutOfFuel
  end.

Definition run (cf : cfg) (t : tree) (d : data) : res str :=
  do a <- parse cf t;;
  Ok (fst (render_nodes cf d a (d_str d))).

(** * Observables for the correspondence run and the theorems *)

(** (text, left_trim, right_trim) of every ContentNode, in source order. *)
Fixpoint content_pairs (a : ast) : list (str * wc * wc) :=
  match a with
  | ANil => []
  | AContent txt l r rest => (txt, l, r) :: content_pairs rest
  | ALeaf _ rest => content_pairs rest
  | ARaw _ rest => content_pairs rest
  | ABlock _ body secs rest =>
      content_pairs body ++ content_pairs_secs secs ++ content_pairs rest
  end
with content_pairs_secs (s : asecs) : list (str * wc * wc) :=
  match s with
  | ASNil => []
  | ASCons _ body rest => content_pairs body ++ content_pairs_secs rest
  end.

(** Trimmed text of every RawNode, in source order. *)
Fixpoint raw_texts (a : ast) : list str :=
  match a with
  | ANil => []
  | AContent _ _ _ rest => raw_texts rest
  | ALeaf _ rest => raw_texts rest
  | ARaw txt rest => txt :: raw_texts rest
  | ABlock _ body secs rest => raw_texts body ++ raw_texts_secs secs ++ raw_texts rest
  end
with raw_texts_secs (s : asecs) : list str :=
  match s with
  | ASNil => []
  | ASCons _ body rest => raw_texts body ++ raw_texts_secs rest
  end.

(** ** The flat token list and the adjacency specification of trimming *)

Inductive ftok :=
| FC (txt : str)       (* content token that becomes a ContentNode *)
| FD (txt : str)       (* the whitespace content token a case tag steps over *)
| FM (l r : wc).       (* any markup token: leftmost and rightmost marker *)

Fixpoint flatten (t : tree) : list ftok :=
  match t with
  | TNil => []
  | TContent txt rest => FC txt :: flatten rest
  | TLeaf _ l r _ rest => FM l r :: flatten rest
  | TRaw w0 _ _ w3 _ rest => FM w0 w3 :: flatten rest
  | TBlock k l r body secs el er rest =>
      FM l r ::
      (match k with
       | KCase _ => match body with TContent txt TNil => [FD txt] | _ => [] end
       | _ => flatten body
       end) ++ flatten_secs secs ++ FM el er :: flatten rest
  end
with flatten_secs (s : tsecs) : list ftok :=
  match s with
  | SNil => []
  | SCons _ l r body rest => FM l r :: flatten body ++ flatten_secs rest
  end.

Definition peek_tok (rest : list ftok) (after : option wc) : option wc :=
  match rest with
  | FM l _ :: _ => Some l
  | FC _ :: _ | FD _ :: _ => None
  | [] => after
  end.

(** What whitespace control is meant to be: the text of a content token is
    trimmed on the left by the right marker of the markup token immediately
    before it (by [default_trim] when there is none) and on the right by the
    left marker of the markup token immediately after it. *)
Fixpoint adj (dt prev : wc) (toks : list ftok) (after : option wc)
  : list (str * wc * wc) :=
  match toks with
  | [] => []
  | FC txt :: rest => (txt, prev, peeked (peek_tok rest after)) :: adj dt dt rest after
  | FD _ :: rest => adj dt dt rest after
  | FM _ r :: rest => adj dt r rest after
  end.

Definition adjacent_pairs (dt : wc) (toks : list ftok) : list (str * wc * wc) :=
  adj dt dt toks None.

(** ** Reference semantics without whitespace control

    [plain_*] renders the token tree with every text written verbatim, no
    trimming and no suppression.  It does not look at any marker. *)

Fixpoint plain_nodes (d : data) (t : tree) (st : store) {struct t} : str * store :=
  match t with
  | TNil => ([], st)
  | TContent txt rest => andthen (txt, st) (plain_nodes d rest)
  | TLeaf _ _ _ w rest =>
      andthen (match w with Some v => st v | None => [] end, st) (plain_nodes d rest)
  | TRaw _ _ _ _ txt rest => andthen (txt, st) (plain_nodes d rest)
  | TBlock k _ _ body secs _ _ rest =>
      let blk := plain_nodes d body in
      andthen
        match k with
        | KIf c => if d_cond d c then blk st else plain_first d secs st
        | KUnless c => if negb (d_cond d c) then blk st else plain_first d secs st
        | KFor n =>
            match d_count d n with
            | O => plain_first d secs st
            | S m => iter (S m) blk st
            end
        | KCase kv => plain_case d (d_int d kv) false secs st
        | KCapture v => captured v (blk st)
        | KWith => blk st
        end
        (plain_nodes d rest)
  end
with plain_first (d : data) (s : tsecs) (st : store) {struct s} : str * store :=
  match s with
  | SNil => ([], st)
  | SCons g _ _ body rest =>
      if guard_holds d g then plain_nodes d body st else plain_first d rest st
  end
with plain_case (d : data) (kv : nat) (matched : bool) (s : tsecs) (st : store)
  {struct s} : str * store :=
  match s with
  | SNil => ([], st)
  | SCons g _ _ body rest =>
      let matched' := matched || when_matches kv g in
      if fires kv matched g then
        andthen (plain_nodes d body st) (plain_case d kv matched' rest)
      else plain_case d kv matched' rest st
  end.

Definition plain_run (t : tree) (d : data) : res str :=
  if wf t then Ok (fst (plain_nodes d t (d_str d)))
  else LErr LiquidSyntaxError None.

(** ** Marker assignments *)

(** [unmark t]: the same tokens with every marker removed.  Two token trees
    differ only in their markers iff their [unmark]s are equal. *)
Fixpoint unmark (t : tree) : tree :=
  match t with
  | TNil => TNil
  | TContent txt rest => TContent txt (unmark rest)
  | TLeaf vt _ _ w rest => TLeaf vt Default Default w (unmark rest)
  | TRaw _ _ _ _ txt rest => TRaw Default Default Default Default txt (unmark rest)
  | TBlock k _ _ body secs _ _ rest =>
      TBlock k Default Default (unmark body) (unmark_secs secs) Default Default (unmark rest)
  end
with unmark_secs (s : tsecs) : tsecs :=
  match s with
  | SNil => SNil
  | SCons g _ _ body rest => SCons g Default Default (unmark body) (unmark_secs rest)
  end.

(** [remark ms t]: write the markers [ms] (in source order, one per marker
    position: 2 per tag/output/comment, 4 per raw) into the tree; positions
    beyond the list get [Default].  Returns the unused markers.  The
    correspondence run uses it to share one program among all its marker
    assignments. *)
Definition pop (ms : list wc) : wc * list wc :=
  match ms with m :: ms' => (m, ms') | [] => (Default, []) end.

Fixpoint remark (ms : list wc) (t : tree) {struct t} : tree * list wc :=
  match t with
  | TNil => (TNil, ms)
  | TContent txt rest =>
      let '(rest', ms1) := remark ms rest in (TContent txt rest', ms1)
  | TLeaf vt _ _ w rest =>
      let '(l, ms1) := pop ms in
      let '(r, ms2) := pop ms1 in
      let '(rest', ms3) := remark ms2 rest in
      (TLeaf vt l r w rest', ms3)
  | TRaw _ _ _ _ txt rest =>
      let '(w0, ms1) := pop ms in
      let '(w1, ms2) := pop ms1 in
      let '(w2, ms3) := pop ms2 in
      let '(w3, ms4) := pop ms3 in
      let '(rest', ms5) := remark ms4 rest in
      (TRaw w0 w1 w2 w3 txt rest', ms5)
  | TBlock k _ _ body secs _ _ rest =>
      let '(l, ms1) := pop ms in
      let '(r, ms2) := pop ms1 in
      let '(body', ms3) := remark ms2 body in
      let '(secs', ms4) := remark_secs ms3 secs in
      let '(el, ms5) := pop ms4 in
      let '(er, ms6) := pop ms5 in
      let '(rest', ms7) := remark ms6 rest in
      (TBlock k l r body' secs' el er rest', ms7)
  end
with remark_secs (ms : list wc) (s : tsecs) {struct s} : tsecs * list wc :=
  match s with
  | SNil => (SNil, ms)
  | SCons g _ _ body rest =>
      let '(l, ms1) := pop ms in
      let '(r, ms2) := pop ms1 in
      let '(body', ms3) := remark ms2 body in
      let '(rest', ms4) := remark_secs ms3 rest in
      (SCons g l r body' rest', ms4)
  end.

(** Base-4 digits of [n], least significant first, [p] of them:
    0 = no marker, 1 = "-", 2 = "~", 3 = "+". *)
Definition wc_of_digit (n : N) : wc :=
  match n with 0 => Default | 1 => Minus | 2 => Tilde | _ => Plus end.

Fixpoint digits4 (p : nat) (n : N) : list wc :=
  match p with
  | O => []
  | S p' => wc_of_digit (n mod 4) :: digits4 p' (n / 4)
  end.

(** No marker and no default trims: every marker is absent or "+". *)
Definition plain_wc (w : wc) : bool :=
  match w with Plus | Default => true | _ => false end.

(** Every marker of the tree satisfies [ok]. *)
Fixpoint all_markers (ok : wc -> bool) (t : tree) : bool :=
  match t with
  | TNil => true
  | TContent _ rest => all_markers ok rest
  | TLeaf _ l r _ rest => ok l && ok r && all_markers ok rest
  | TRaw w0 w1 w2 w3 _ rest =>
      ok w0 && ok w1 && ok w2 && ok w3 && all_markers ok rest
  | TBlock _ l r body secs el er rest =>
      ok l && ok r && all_markers ok body && all_markers_secs ok secs
      && ok el && ok er && all_markers ok rest
  end
with all_markers_secs (ok : wc -> bool) (s : tsecs) : bool :=
  match s with
  | SNil => true
  | SCons _ l r body rest =>
      ok l && ok r && all_markers ok body && all_markers_secs ok rest
  end.

Definition no_trim_markers (t : tree) : bool := all_markers plain_wc t.

(** ** A marker trims the whole adjacent whitespace run (what defect 19 breaks) *)

(** The rendered text of the maximal run of content tokens at the head of [toks]. *)
Fixpoint run_text (dt prev : wc) (toks : list ftok) (after : option wc) : str :=
  match toks with
  | FC txt :: rest =>
      trim dt txt prev (peeked (peek_tok rest after)) ++ run_text dt dt rest after
  | _ => []
  end.

Definition starts_ws (s : str) : bool :=
  match s with c :: _ => is_ws c | [] => false end.

Fixpoint no_adjacent_content (toks : list ftok) : bool :=
  match toks with
  | FC _ :: ((FC _ :: _) as rest) => false
  | _ :: rest => no_adjacent_content rest
  | [] => true
  end.

(** Every markup token whose right marker is "-" is followed by rendered text
    that does not begin with whitespace. *)
Definition right_marker_honoured (dt : wc) (toks : list ftok) : Prop :=
  forall pre l r rest,
    toks = pre ++ FM l r :: rest -> resolve dt r = Minus ->
    starts_ws (run_text dt r rest None) = false.

(** * Helpers for the correspondence run *)

Definition mk_data (strs : list str) (conds : list bool) (counts ints : list nat) : data :=
  {| d_str := fun n => nth n strs [];
     d_cond := fun n => nth n conds false;
     d_count := fun n => nth n counts O;
     d_int := fun n => nth n ints O |}.

(** Everything the harness compares for one (program, markers, configuration):
    rendered output (or error class), the trim pairs of every ContentNode and
    the trimmed text of every RawNode. *)
Definition observe (cf : cfg) (t : tree) (d : data)
  : res (str * list (str * wc * wc) * list str) :=
  do a <- parse cf t;;
  Ok (fst (render_nodes cf d a (d_str d)), content_pairs a, raw_texts a).

Definition markers_of (p : list (str * wc * wc)) : list (wc * wc) :=
  map (fun x => (snd (fst x), snd x)) p.

Definition texts_of (p : list (str * wc * wc)) : list str :=
  map (fun x => fst (fst x)) p.

(** One correspondence case: program [t] (stored without markers), marker
    assignment number [n] over [p] positions, data [d]; the implementation's
    outcome is [exp]: [None] for a LiquidSyntaxError, else (index of the output
    in [tbl], [pairs_code] of the markers of every ContentNode, indexes of the RawNode texts). *)
Definition outcome := (N * N * list N)%type.

(** A list of marker pairs as one number (base 4, a leading 1 keeps the length). *)
Definition wc_digit (w : wc) : N :=
  match w with Default => 0 | Minus => 1 | Tilde => 2 | Plus => 3 end.

Fixpoint pairs_code (p : list (wc * wc)) : N :=
  match p with
  | [] => 1
  | (l, r) :: p' => wc_digit l + 4 * (wc_digit r + 4 * pairs_code p')
  end.

Definition tbl_get (tbl : list str) (i : N) : str := nth (N.to_nat i) tbl [0].

Definition check_case (cf : cfg) (t : tree) (p : nat) (n : N) (d : data)
  (tbl : list str) (exp : option outcome) : bool :=
  match observe cf (fst (remark (digits4 p n) t)) d, exp with
  | Ok (out, pairs, raws), Some (oi, epairs, eraws) =>
      str_eqb out (tbl_get tbl oi)
      && (pairs_code (markers_of pairs) =? epairs)
      && list_eqb str_eqb raws (map (tbl_get tbl) eraws)
  | LErr LiquidSyntaxError _, None => true
  | _, _ => false
  end.

(** A sweep: assignment numbers [ns], and for each the index of the
    implementation's outcome in [outc] (an index past the end = syntax error).
    [sweep_failures] lists the assignment numbers on which the model differs. *)
Definition sweep_failures (cf : cfg) (t : tree) (p : nat) (d : data)
  (tbl : list str) (outc : list outcome) (ns es : list N) : list N :=
  map fst (filter (fun ne => negb (check_case cf t p (fst ne) d tbl
                                     (nth_error outc (N.to_nat (snd ne)))))
                  (combine ns es)).

Definition check_sweep (cf : cfg) (t : tree) (p : nat) (d : data)
  (tbl : list str) (outc : list outcome) (ns es : list N) : bool :=
  Nat.eqb (length ns) (length es)
  && match sweep_failures cf t p d tbl outc ns es with [] => true | _ => false end.

(** [env.trim(text, l, r)] for every (default_trim, l, r), in a fixed order. *)
Definition all_wc : list wc := [Plus; Minus; Tilde; Default].
Definition trim_table (text : str) : list str :=
  flat_map (fun dt => flat_map (fun l => map (fun r => trim dt text l r) all_wc) all_wc) all_wc.
Definition check_trim (text : str) (tbl : list str) (exp : list N) : bool :=
  list_eqb str_eqb (trim_table text) (map (tbl_get tbl) exp).

(** The whitespace set against CPython's, for every code point below [bound]:
    [ws] lists (ascending) the code points CPython reports. *)
Definition check_ws_table (bound : N) (ws : list N) : bool :=
  let step (acc : N * list N * bool) :=
    let '(c, rest, ok) := acc in
    match rest with
    | w :: rest' =>
        if (c =? w) then (c + 1, rest', ok && is_ws c)
        else (c + 1, rest, ok && negb (is_ws c))
    | [] => (c + 1, [], ok && negb (is_ws c))
    end in
  let '(_, rest, ok) := N.iter bound step (0, ws, true) in
  ok && match rest with [] => true | _ => false end.
