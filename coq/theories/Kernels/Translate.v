(** Kernels/Translate.v — model of the translate tag and the five translation
    filters of liquid2, as far as catalog lookups and message extraction are
    concerned (property C15).

    Transcribed (code AS FIXED by /verif/proposed_fixes/C15/000[2-5]*.patch):

      liquid2/builtin/filters/translate.py
        Translate.__call__ / .message      (t)         :98-205
        GetText / NGetText / PGetText / NPGetText       :208-438
        _positional_arguments, _count                   (end of file)
      liquid2/builtin/tags/translate_tag.py
        TranslateNode.resolve_count / resolve_message_context / gettext :139-195
        TranslateNode.messages                          :217-253
        TranslateTag.validate_message_block (message text)  :337-391
      liquid2/builtin/expressions.py
        Filter.evaluate / evaluate_args                 :843-878
      liquid2/stringify.py to_liquid_string, liquid2/limits.py to_int,
      liquid2/filter.py int_arg, liquid2/undefined.py Undefined

    Abstractions (see design_notes/C15.md):
      * run-time values are nil, booleans, integers, strings, the default
        [Undefined], and [VDyn] = "the result of some filter" (unknown text);
      * Python's [int(str)] is a parameter [pyint : str -> option Z]
        ([None] = ValueError); theorems hold for every such function, the
        correspondence run instantiates it with CPython's answers;
      * keyword-argument names are an enumeration (plural / count / other), so
        names that collide with Python parameters ([context], mangled
        [_Translate__left] ...) are outside the syntax;
      * the catalog (a [Translations] object) returns text without conversion
        specifiers, so the [%]-interpolation after a lookup never raises.

    Model file: definitions only. *)
From LQ Require Export Base.Str.
From Coq Require DecimalString String Ascii.

Local Open Scope list_scope.

(** * Python primitives *)

(** [str(int)]: decimal digits, with a leading '-' for negatives. *)
Definition dec (z : Z) : str :=
  map Ascii.N_of_ascii
    (String.list_ascii_of_string (DecimalString.NilZero.string_of_int (Z.to_int z))).

(** [str.isspace()] for one code point (Py_UNICODE_ISSPACE); also the class
    [\s] of [re] for str patterns and what [str.strip()] removes. *)
Definition ws_chars : list N :=
  [9; 10; 11; 12; 13; 28; 29; 30; 31; 32; 133; 160; 5760;
   8192; 8193; 8194; 8195; 8196; 8197; 8198; 8199; 8200; 8201; 8202;
   8232; 8233; 8239; 8287; 12288]%N.

Definition is_space (c : N) : bool := existsb (N.eqb c) ws_chars.

Fixpoint lstrip (s : str) : str :=
  match s with
  | [] => []
  | c :: s' => if is_space c then lstrip s' else s
  end.

Definition rstrip (s : str) : str := rev (lstrip (rev s)).

(** [s.strip()] *)
Definition strip (s : str) : str := rstrip (lstrip s).

(** [s.startswith(p)] *)
Fixpoint startswith (p s : str) : bool :=
  match p, s with
  | [], _ => true
  | _ :: _, [] => false
  | a :: p', b :: s' => N.eqb a b && startswith p' s'
  end.

Definition nonempty (s : str) : bool := match s with [] => false | _ => true end.

(** * Values *)

Inductive value :=
| VNil | VBool (b : bool) | VInt (z : Z) | VStr (s : str)
| VUndef            (* liquid2.undefined.Undefined: a missing variable *)
| VDyn.             (* the result of a filter: text the model does not know *)

Definition s_true : str := [116; 114; 117; 101]%N.          (* "true" *)
Definition s_false : str := [102; 97; 108; 115; 101]%N.     (* "false" *)
Definition s_True : str := [84; 114; 117; 101]%N.           (* "True" *)
Definition s_False : str := [70; 97; 108; 115; 101]%N.      (* "False" *)

(** [to_liquid_string(v)] (stringify.py:15); [None] = unknown text. *)
Definition tls (v : value) : option str :=
  match v with
  | VStr s => Some s
  | VBool true => Some s_true
  | VBool false => Some s_false
  | VNil => Some []
  | VInt z => Some (dec z)
  | VUndef => Some []          (* str(Undefined) = "" *)
  | VDyn => None
  end.

(** The same for argument values, which are never [VDyn]. *)
Definition tls_arg (v : value) : str :=
  match tls v with Some s => s | None => [] end.

(** Python [str(v)] for the values [resolve_message_context] stringifies. *)
Definition py_str (v : value) : str :=
  match v with
  | VStr s => s
  | VInt z => dec z
  | VBool true => s_True
  | VBool false => s_False
  | VNil => [78; 111; 110; 101]%N   (* "None" *)
  | VUndef => []
  | VDyn => []
  end.

(** Python truthiness [bool(v)]. *)
Definition py_truthy (v : value) : bool :=
  match v with
  | VNil => false
  | VBool b => b
  | VInt z => negb (Z.eqb z 0)
  | VStr s => nonempty s
  | VUndef => false            (* Undefined.__len__() == 0 *)
  | VDyn => true
  end.

(** Liquid truthiness [is_truthy(v)]: only false, nil and undefined are falsy. *)
Definition liquid_truthy (v : value) : bool :=
  match v with
  | VNil | VBool false | VUndef => false
  | _ => true
  end.

(** * Primitive expressions and run-time data *)

Inductive prim :=
| PStr (s : str)        (* StringLiteral *)
| PVar (slot : N)       (* Path to a variable supplied by the caller's data *)
| PInt (z : Z)          (* IntegerLiteral *)
| PNil                  (* Null *)
| PBool (b : bool).     (* TrueLiteral / FalseLiteral *)

Definition data := list (N * value).

Fixpoint lookup (d : data) (k : N) : value :=
  match d with
  | [] => VUndef
  | (k', v) :: d' => if N.eqb k k' then v else lookup d' k
  end.

Definition eval_prim (d : data) (p : prim) : value :=
  match p with
  | PStr s => VStr s
  | PVar k => lookup d k
  | PInt z => VInt z
  | PNil => VNil
  | PBool b => VBool b
  end.

Definition is_pstr (p : prim) : option str :=
  match p with PStr s => Some s | _ => None end.

(** * Messages (extraction side) and catalog calls (render side) *)

(** What [message()] / [messages()] report: the function name decides the shape
    of the message tuple — gettext (id,), ngettext (id, plural),
    pgettext ((ctx, "c"), id), npgettext ((ctx, "c"), id, plural). *)
Inductive mtext :=
| MGettext (id : str)
| MNgettext (id pl : str)
| MPgettext (ctx id : str)
| MNpgettext (ctx id pl : str).

(** A call on the [Translations] object. The message id is [None] when the
    model does not know the text (operand produced by another filter). *)
Inductive ccall :=
| CGettext (id : option str)
| CNgettext (id : option str) (pl : str) (n : Z)
| CPgettext (ctx : str) (id : option str)
| CNpgettext (ctx : str) (id : option str) (pl : str) (n : Z).

(** The message a call asks the catalog for (family, ids, context), if its id
    is known. *)
Definition mtext_of_call (c : ccall) : option mtext :=
  match c with
  | CGettext (Some i) => Some (MGettext i)
  | CNgettext (Some i) p _ => Some (MNgettext i p)
  | CPgettext c (Some i) => Some (MPgettext c i)
  | CNpgettext c (Some i) p _ => Some (MNpgettext c i p)
  | _ => None
  end.

Definition call_id (c : ccall) : option str :=
  match c with
  | CGettext i | CNgettext i _ _ | CPgettext _ i | CNpgettext _ i _ _ => i
  end.

Definition mtext_id (m : mtext) : str :=
  match m with
  | MGettext i | MNgettext i _ | MPgettext _ i | MNpgettext _ i _ => i
  end.

(** A message a catalog can hold: it has a non-empty id, or it is a plural
    message (whose plural form is looked up even when the id is empty).  The
    only lookups that are not reportable are gettext("") / pgettext(c, ""). *)
Definition reportable (m : mtext) : bool :=
  nonempty (mtext_id m)
  || match m with MNgettext _ _ | MNpgettext _ _ _ => true | _ => false end.

(** * Filters *)

Inductive kwname := KwPlural | KwCount | KwOther (n : N).

Definition kwname_eqb (a b : kwname) : bool :=
  match a, b with
  | KwPlural, KwPlural | KwCount, KwCount => true
  | KwOther x, KwOther y => N.eqb x y
  | _, _ => false
  end.

Inductive farg :=
| FPos (p : prim)                  (* PositionalArgument *)
| FKw (k : kwname) (p : prim).     (* KeywordArgument *)

Inductive fname :=
| FT | FGettext | FNgettext | FPgettext | FNpgettext
| FOther (n : N).   (* any filter that is not a TranslatableFilter *)

Record lfilter := { f_name : fname; f_args : list farg }.

(** [_positional_arguments(_filter)] / the positional list of
    [Filter.evaluate_args]: positional arguments in order, wherever keyword
    arguments are interleaved. *)
Fixpoint positional (args : list farg) : list prim :=
  match args with
  | [] => []
  | FPos p :: r => p :: positional r
  | FKw _ _ :: r => positional r
  end.

(** The value bound to keyword [k]: the LAST occurrence wins, both in
    [Translate.message] ([for arg in _filter.args: ... plural = arg.value]) and
    in [evaluate_args] ([keyword_args[name] = value]). *)
Fixpoint kw_last (k : kwname) (args : list farg) : option prim :=
  match args with
  | [] => None
  | FKw k' p :: r =>
      match kw_last k r with
      | Some q => Some q
      | None => if kwname_eqb k k' then Some p else None
      end
  | FPos _ :: r => kw_last k r
  end.

(** ** [message()]: translate.py:155-205, 237-250, 292-310, 348-363, 415-438 *)
Definition filter_message (f : lfilter) (left : prim) : option mtext :=
  let args := f_args f in
  match f_name f with
  | FT =>
      match is_pstr left with
      | None => None
      | Some l =>
          match args with
          | [] => Some (MGettext l)
          | _ =>
              let ctx := hd_error (positional args) in
              match kw_last KwPlural args with
              | Some (PStr p) =>
                  match ctx with
                  | Some (PStr c) => Some (MNpgettext c l p)
                  | _ => Some (MNgettext l p)
                  end
              | Some _ => None     (* plural given but not a string literal *)
              | None =>
                  match ctx with
                  | Some (PStr c) => Some (MPgettext c l)
                  | _ => Some (MGettext l)
                  end
              end
          end
      end
  | FGettext =>
      match is_pstr left with Some l => Some (MGettext l) | None => None end
  | FNgettext =>
      match positional args with
      | [] => None
      | p :: _ =>
          match is_pstr left, is_pstr p with
          | Some l, Some pl => Some (MNgettext l pl)
          | _, _ => None
          end
      end
  | FPgettext =>
      match positional args with
      | [] => None
      | c :: _ =>
          match is_pstr left, is_pstr c with
          | Some l, Some cx => Some (MPgettext cx l)
          | _, _ => None
          end
      end
  | FNpgettext =>
      match positional args with
      | c :: p :: _ =>
          match is_pstr left, is_pstr p, is_pstr c with
          | Some l, Some pl, Some cx => Some (MNpgettext cx l pl)
          | _, _, _ => None
          end
      | _ => None
      end
  | FOther _ => None     (* name not in keywords / not a TranslatableFilter *)
  end.

Section WithPyInt.
(** CPython's [int(s)] for a str: [None] = ValueError. *)
Variable pyint : str -> option Z.

(** [to_int(v)] (limits.py:45): [int(v)]; strings are assumed shorter than
    MAX_STR_INT. *)
Definition to_int (v : value) : res Z :=
  match v with
  | VInt z => Ok z
  | VBool b => Ok (if b then 1 else 0)%Z
  | VStr s => match pyint s with Some z => Ok z | None => PyExc ValueError end
  | VUndef => Ok 0%Z                 (* Undefined.__int__ *)
  | VNil => PyExc TypeError
  | VDyn => PyExc ValueError         (* not reachable: arguments are primitives *)
  end.

(** [int_arg(v, default=1)] (filter.py:43), with the [TypeError] that escapes
    it turned into [LiquidTypeError] by [Filter.evaluate]. *)
Definition int_arg1 (v : value) : res Z :=
  match to_int v with
  | Ok z => Ok z
  | PyExc ValueError => Ok 1%Z
  | _ => LErr LiquidTypeError None
  end.

(** [_count(kwargs.get("count"))] of the [t] filter (after the fix): [None]
    for a missing count, nil and booleans, and when [int()] raises ValueError. *)
Definition count_t (v : option value) : option Z :=
  match v with
  | None => None
  | Some VNil => None
  | Some (VBool _) => None
  | Some (VInt z) => Some z
  | Some (VStr s) => pyint s
  | Some VUndef => Some 0%Z
  | Some VDyn => None
  end.

(** ** [__call__] reached through [Filter.evaluate]: translate.py:98-153,
    213-235, 258-290, 318-346, 371-413.

    [left] is [to_liquid_string] of the filter's input.  The result is the
    catalog call made, or [LiquidTypeError] when Python cannot bind the
    arguments ([TypeError] caught in [Filter.evaluate]); no call is made in
    that case.  A filter that is not a translation filter makes no call. *)
Definition apply_filter (d : data) (left : option str) (f : lfilter) : res (option ccall) :=
  let args := f_args f in
  let pos := map (eval_prim d) (positional args) in
  match f_name f with
  | FOther _ => Ok None
  | FT =>
      match pos with
      | _ :: _ :: _ => LErr LiquidTypeError None    (* at most one positional *)
      | _ =>
          (* __message_context is not None *)
          let mctx := match pos with
                      | c :: _ => match c with VNil => None | _ => Some (tls_arg c) end
                      | [] => None
                      end in
          (* plural = kwargs.pop("plural", None) *)
          let plural := match kw_last KwPlural args with
                        | None => None
                        | Some p => match eval_prim d p with
                                    | VNil => None
                                    | v => Some (tls_arg v)
                                    end
                        end in
          let n := count_t (option_map (eval_prim d) (kw_last KwCount args)) in
          match plural with
          | Some pl =>
              let n' := match n with Some z => z | None => 1%Z end in
              match mctx with
              | Some c => Ok (Some (CNpgettext c left pl n'))
              | None => Ok (Some (CNgettext left pl n'))
              end
          | None =>
              match mctx with
              | Some c => Ok (Some (CPgettext c left))
              | None => Ok (Some (CGettext left))
              end
          end
      end
  | FGettext =>
      match pos with
      | [] => Ok (Some (CGettext left))
      | _ => LErr LiquidTypeError None
      end
  | FNgettext =>
      match pos with
      | [p; c] =>
          match int_arg1 c with
          | Ok n => Ok (Some (CNgettext left (tls_arg p) n))
          | LErr e q => LErr e q
          | PyExc k => PyExc k
          | OutOfFuel => OutOfFuel
          end
      | _ => LErr LiquidTypeError None
      end
  | FPgettext =>
      match pos with
      | [c] => Ok (Some (CPgettext (tls_arg c) left))
      | _ => LErr LiquidTypeError None
      end
  | FNpgettext =>
      match pos with
      | [c; p; k] =>
          match int_arg1 k with
          | Ok n => Ok (Some (CNpgettext (tls_arg c) left (tls_arg p) n))
          | LErr e q => LErr e q
          | PyExc x => PyExc x
          | OutOfFuel => OutOfFuel
          end
      | _ => LErr LiquidTypeError None
      end
  end.

End WithPyInt.

(** The operands that [message()] reports are string literals (or absent):
    this is what "a translation filter applied to string literals" means for
    each filter.  [count] never has to be a literal. *)
Definition absent_or_pstr (o : option prim) : bool :=
  match o with None => true | Some (PStr _) => true | Some _ => false end.

Definition operands_literal (f : lfilter) : bool :=
  let args := f_args f in
  match f_name f with
  | FT => absent_or_pstr (hd_error (positional args))
          && absent_or_pstr (kw_last KwPlural args)
  | FGettext => true
  | FNgettext => absent_or_pstr (hd_error (positional args))
  | FPgettext => absent_or_pstr (hd_error (positional args))
  | FNpgettext => absent_or_pstr (hd_error (positional args))
                  && absent_or_pstr (hd_error (tl (positional args)))
  | FOther _ => false
  end.

(** * The translate tag *)

Inductive targname := TaContext | TaCount | TaOther (n : N).

Definition targname_eqb (a b : targname) : bool :=
  match a, b with
  | TaContext, TaContext | TaCount, TaCount => true
  | TaOther x, TaOther y => N.eqb x y
  | _, _ => false
  end.

(** One keyword argument of the tag: name, position of the value's token, value. *)
Definition targ := (targname * (N * prim))%type.

(** [self.args] is a dict built by a comprehension
    ([{arg.name: arg for arg in ...}]): a repeated name keeps the place of its
    first occurrence and the value of its last. *)
Fixpoint targ_set (a : targ) (l : list targ) : list targ :=
  match l with
  | [] => [a]
  | b :: r => if targname_eqb (fst a) (fst b) then a :: r else b :: targ_set a r
  end.

Definition targ_dict (args : list targ) : list targ :=
  fold_left (fun acc a => targ_set a acc) args [].

Fixpoint targ_assoc (k : targname) (l : list targ) : option prim :=
  match l with
  | [] => None
  | (k', (_, p)) :: r => if targname_eqb k k' then Some p else targ_assoc k r
  end.

(** [self.args.get(name)] *)
Definition targ_last (k : targname) (args : list targ) : option prim :=
  targ_assoc k (targ_dict args).

(** A node of a message block: text, or [{{ name }}] (a placeholder variable;
    [epos] is the position of the variable's own token). *)
Inductive mpart :=
| MText (pos : N) (s : str)
| MVar (pos : N) (epos : N) (name : str).

Record mblock := { mb_pos : N; mb_parts : list mpart }.

(** [node.text.replace("%", "%%")] *)
Definition escape_percent (s : str) : str :=
  flat_map (fun c => if N.eqb c 37 then [37; 37]%N else [c]) s.

Definition part_text (p : mpart) : str :=
  match p with
  | MText _ s => escape_percent s
  | MVar _ _ name => [37; 40]%N ++ name ++ [41; 115]%N     (* %(name)s *)
  end.

(** [re.compile(r"\s*\n\s*").sub(" ", s)]: every maximal run of whitespace
    that contains a line feed becomes one space; other runs are kept. *)
Definition flush_run (run : str) (has_nl : bool) : str :=
  if has_nl then [32%N] else rev run.

Fixpoint collapse_aux (s run : str) (has_nl : bool) : str :=
  match s with
  | [] => flush_run run has_nl
  | c :: s' =>
      if is_space c then collapse_aux s' (c :: run) (has_nl || N.eqb c 10)
      else flush_run run has_nl ++ c :: collapse_aux s' [] false
  end.

Definition collapse_ws (s : str) : str := collapse_aux s [] false.

(** [MessageBlock.text] (validate_message_block, trim_messages = True). *)
Definition msg_text (b : mblock) : str :=
  collapse_ws (strip (concat (map part_text (mb_parts b)))).

(** [TranslateNode.messages()] (after the fixes 0004, 0007): zero or one message. *)
Definition tr_messages (args : list targ) (sing : mblock) (plural : option mblock)
  : option mtext :=
  match mb_parts sing, plural with
  | [], None => None    (* if not self.singular_block.block.nodes and not self.plural_block *)
  | _, _ =>
      let ctx := match targ_last TaContext args with
                 | Some (PStr c) => if nonempty c then Some c else None
                 | _ => None
                 end in
      match plural, ctx with
      | Some pb, Some c => Some (MNpgettext c (msg_text sing) (msg_text pb))
      | Some pb, None => Some (MNgettext (msg_text sing) (msg_text pb))
      | None, Some c => Some (MPgettext c (msg_text sing))
      | None, None => Some (MGettext (msg_text sing))
      end
  end.

Section WithPyInt2.
Variable pyint : str -> option Z.

(** [resolve_count] (as of /repo ef21706):
    [to_int(block_scope.get("count", 1))]; a count that [to_int] rejects
    (ValueError, TypeError for nil, OverflowError) counts as 1.  The result
    type stays [res Z]; it is always [Ok]. *)
Definition tr_count (d : data) (args : list targ) : res Z :=
  match targ_last TaCount args with
  | None => Ok 1%Z
  | Some p =>
      match to_int pyint (eval_prim d p) with
      | Ok z => Ok z
      | _ => Ok 1%Z
      end
  end.

(** [resolve_message_context]: a falsy context is no context. *)
Definition tr_context (d : data) (args : list targ) : option str :=
  match targ_last TaContext args with
  | None => None
  | Some p =>
      let v := eval_prim d p in
      if py_truthy v then Some (py_str v) else None
  end.

(** [render_to_output] up to and including [self.gettext(...)] (after the
    fix: [if self.plural_block and count is not None]). *)
Definition tr_call (d : data) (args : list targ) (sing : mblock) (plural : option mblock)
  : res ccall :=
  match tr_count d args with
  | Ok count =>
      let ctx := match tr_context d args with
                 | Some c => if nonempty c then Some c else None
                 | None => None
                 end in
      Ok match plural, ctx with
         | Some pb, Some c => CNpgettext c (Some (msg_text sing)) (msg_text pb) count
         | Some pb, None => CNgettext (Some (msg_text sing)) (msg_text pb) count
         | None, Some c => CPgettext c (Some (msg_text sing))
         | None, None => CGettext (Some (msg_text sing))
         end
  | LErr e q => LErr e q
  | PyExc k => PyExc k
  | OutOfFuel => OutOfFuel
  end.

End WithPyInt2.

(** The tag's message context is a string literal or absent. *)
Definition tr_literal (args : list targ) : bool :=
  absent_or_pstr (targ_last TaContext args).

(** * Boolean equalities for the correspondence runner *)

Definition ostr_eqb := option_eqb str_eqb.

Definition mtext_eqb (a b : mtext) : bool :=
  match a, b with
  | MGettext i, MGettext j => str_eqb i j
  | MNgettext i p, MNgettext j q => str_eqb i j && str_eqb p q
  | MPgettext c i, MPgettext e j => str_eqb c e && str_eqb i j
  | MNpgettext c i p, MNpgettext e j q => str_eqb c e && str_eqb i j && str_eqb p q
  | _, _ => false
  end.

(** Calls are compared exactly; an id the model does not know ([None]) matches
    any id the implementation passed. *)
Definition id_matches (model : option str) (impl : option str) : bool :=
  match model, impl with
  | None, _ => true
  | Some a, Some b => str_eqb a b
  | Some _, None => false
  end.

Definition ccall_matches (model impl : ccall) : bool :=
  match model, impl with
  | CGettext i, CGettext j => id_matches i j
  | CNgettext i p n, CNgettext j q m => id_matches i j && str_eqb p q && Z.eqb n m
  | CPgettext c i, CPgettext e j => str_eqb c e && id_matches i j
  | CNpgettext c i p n, CNpgettext e j q m =>
      str_eqb c e && id_matches i j && str_eqb p q && Z.eqb n m
  | _, _ => false
  end.
