(** Base/Str.v — strings as lists of code points, results, generic boolean equalities.

    Python [str] is a sequence of Unicode code points: indexing, slicing and
    [len] are per code point.  [char := N], [str := list N] is therefore exact.
    Model file: no proofs about liquid2 here, only generic utilities with their
    specification lemmas. *)
From Coq Require Export List NArith ZArith Bool Lia.
Export ListNotations.

Definition char := N.
Definition str := list N.

(** * Results of modelled Python code *)

(** The subclasses of [LiquidError] that modelled code raises. *)
Inductive lclass :=
| LiquidSyntaxError | LiquidTypeError | LiquidNameError | LiquidValueError
| UndefinedError | TemplateNotFoundError | TemplateInheritanceError
| RequiredBlockError | DisabledTagError | TranslationSyntaxError
| ResourceLimitError   (* base class *)
| ContextDepthError | LoopIterationLimitError | OutputStreamLimitError
| LocalNamespaceLimitError
| UnknownFilterError | LiquidIndexError | OtherLiquidError.

(** Non-Liquid exceptions Python primitives raise. *)
Inductive pykind :=
| IndexError | ValueError | KeyError | TypeError | OverflowError
| ZeroDivisionError | DecimalInvalidOperation | AssertionError | OSError
| AttributeError | RecursionError | UnicodeError | OtherPyError.

Inductive res (A : Type) :=
| Ok (a : A)
| LErr (c : lclass) (pos : option Z)
| PyExc (k : pykind)
| OutOfFuel.
Arguments Ok {A} a.
Arguments LErr {A} c pos.
Arguments PyExc {A} k.
Arguments OutOfFuel {A}.

Definition bind {A B} (r : res A) (f : A -> res B) : res B :=
  match r with
  | Ok a => f a
  | LErr c p => LErr c p
  | PyExc k => PyExc k
  | OutOfFuel => OutOfFuel
  end.
Notation "'do' x <- r ;; k" := (bind r (fun x => k))
  (at level 200, x pattern, r at level 100, k at level 200, right associativity).

Definition is_ok {A} (r : res A) : bool := match r with Ok _ => true | _ => false end.
Definition is_pyexc {A} (r : res A) : bool := match r with PyExc _ => true | _ => false end.

(** * Boolean equalities (used by the correspondence runner and by models) *)

Definition lclass_eqb (a b : lclass) : bool :=
  match a, b with
  | LiquidSyntaxError, LiquidSyntaxError | LiquidTypeError, LiquidTypeError
  | LiquidNameError, LiquidNameError | LiquidValueError, LiquidValueError
  | UndefinedError, UndefinedError | TemplateNotFoundError, TemplateNotFoundError
  | TemplateInheritanceError, TemplateInheritanceError
  | RequiredBlockError, RequiredBlockError | DisabledTagError, DisabledTagError
  | TranslationSyntaxError, TranslationSyntaxError
  | ResourceLimitError, ResourceLimitError | ContextDepthError, ContextDepthError
  | LoopIterationLimitError, LoopIterationLimitError
  | OutputStreamLimitError, OutputStreamLimitError
  | LocalNamespaceLimitError, LocalNamespaceLimitError
  | UnknownFilterError, UnknownFilterError | LiquidIndexError, LiquidIndexError
  | OtherLiquidError, OtherLiquidError => true
  | _, _ => false
  end.

Definition pykind_eqb (a b : pykind) : bool :=
  match a, b with
  | IndexError, IndexError | ValueError, ValueError | KeyError, KeyError
  | TypeError, TypeError | OverflowError, OverflowError
  | ZeroDivisionError, ZeroDivisionError
  | DecimalInvalidOperation, DecimalInvalidOperation
  | AssertionError, AssertionError | OSError, OSError
  | AttributeError, AttributeError | RecursionError, RecursionError
  | UnicodeError, UnicodeError | OtherPyError, OtherPyError => true
  | _, _ => false
  end.

Fixpoint list_eqb {A} (eqb : A -> A -> bool) (a b : list A) : bool :=
  match a, b with
  | [], [] => true
  | x :: a', y :: b' => eqb x y && list_eqb eqb a' b'
  | _, _ => false
  end.

Definition option_eqb {A} (eqb : A -> A -> bool) (a b : option A) : bool :=
  match a, b with
  | None, None => true
  | Some x, Some y => eqb x y
  | _, _ => false
  end.

Definition prod_eqb {A B} (ea : A -> A -> bool) (eb : B -> B -> bool)
  (a b : A * B) : bool := ea (fst a) (fst b) && eb (snd a) (snd b).

Definition res_eqb {A} (eqb : A -> A -> bool) (a b : res A) : bool :=
  match a, b with
  | Ok x, Ok y => eqb x y
  | LErr c p, LErr c' p' => lclass_eqb c c' && option_eqb Z.eqb p p'
  | PyExc k, PyExc k' => pykind_eqb k k'
  | OutOfFuel, OutOfFuel => true
  | _, _ => false
  end.

(** Compare results ignoring the error position. *)
Definition res_eqb_nopos {A} (eqb : A -> A -> bool) (a b : res A) : bool :=
  match a, b with
  | Ok x, Ok y => eqb x y
  | LErr c _, LErr c' _ => lclass_eqb c c'
  | PyExc k, PyExc k' => pykind_eqb k k'
  | OutOfFuel, OutOfFuel => true
  | _, _ => false
  end.

Definition str_eqb : str -> str -> bool := list_eqb N.eqb.

Lemma list_eqb_spec {A} (eqb : A -> A -> bool) :
  (forall x y, eqb x y = true <-> x = y) ->
  forall a b, list_eqb eqb a b = true <-> a = b.
Proof.
  intros H a; induction a as [|x a IH]; intros [|y b]; simpl; split; intro E;
    try reflexivity; try discriminate.
  - apply andb_true_iff in E as [E1 E2]. apply H in E1. apply IH in E2. congruence.
  - inversion E; subst. apply andb_true_iff; split; [apply H|apply IH]; reflexivity.
Qed.

Lemma str_eqb_eq a b : str_eqb a b = true <-> a = b.
Proof. apply list_eqb_spec. intros; apply N.eqb_eq. Qed.

Lemma str_eqb_refl a : str_eqb a a = true.
Proof. apply str_eqb_eq; reflexivity. Qed.

Lemma str_eqb_neq a b : str_eqb a b = false <-> a <> b.
Proof.
  split; intro H.
  - intro E. apply str_eqb_eq in E. congruence.
  - destruct (str_eqb a b) eqn:E; [apply str_eqb_eq in E; contradiction|reflexivity].
Qed.

(** * UTF-8 length: [len(s.encode("utf-8"))] for strings without lone surrogates *)

Definition utf8_len1 (c : N) : N :=
  if (c <? 128)%N then 1%N
  else if (c <? 2048)%N then 2%N
  else if (c <? 65536)%N then 3%N else 4%N.

Fixpoint utf8_len (s : str) : N :=
  match s with [] => 0%N | c :: s' => (utf8_len1 c + utf8_len s')%N end.

Lemma utf8_len_app a b : utf8_len (a ++ b) = (utf8_len a + utf8_len b)%N.
Proof. induction a as [|c a IH]; simpl; [reflexivity|rewrite IH; lia]. Qed.

Lemma utf8_len1_pos c : (1 <= utf8_len1 c <= 4)%N.
Proof. unfold utf8_len1. repeat (destruct (_ <? _)%N); lia. Qed.

(** * Association lists keyed by strings (Python dicts, insertion ordered) *)

Fixpoint assoc {V} (k : str) (l : list (str * V)) : option V :=
  match l with
  | [] => None
  | (k', v) :: l' => if str_eqb k k' then Some v else assoc k l'
  end.

Fixpoint remove_key {V} (k : str) (l : list (str * V)) : list (str * V) :=
  match l with
  | [] => []
  | (k', v) :: l' => if str_eqb k k' then remove_key k l' else (k', v) :: remove_key k l'
  end.

(** Python [d[k] = v]: keeps the position of an existing key, else appends. *)
Fixpoint dict_set {V} (k : str) (v : V) (l : list (str * V)) : list (str * V) :=
  match l with
  | [] => [(k, v)]
  | (k', v') :: l' => if str_eqb k k' then (k, v) :: l' else (k', v') :: dict_set k v l'
  end.

Definition keys {V} (l : list (str * V)) : list str := map fst l.

Fixpoint mem_str (k : str) (l : list str) : bool :=
  match l with [] => false | x :: l' => str_eqb k x || mem_str k l' end.

Lemma mem_str_In k l : mem_str k l = true <-> In k l.
Proof.
  induction l as [|x l IH]; simpl; [split; [discriminate|tauto]|].
  rewrite orb_true_iff, IH, str_eqb_eq. split; intros [H|H]; auto.
Qed.
