"""tools/showreplay.py <replay.json>: print a C01/C07 replay compactly."""
import json, re, sys
d = json.load(open(sys.argv[1]))
print(d.get("signature"))
print("SRC   ", repr(d.get("source", d.get("source_a"))))
if d.get("source_b"): print("SRC_B ", repr(d["source_b"]))
print("LOADER", d.get("loader"))
print("DATA  ", d.get("data"))
print("CFG   ", d.get("suppress"), d.get("default_trim"), d.get("shorthand_indexes"))
print("IMPL  ", repr(d.get("implementation", (d.get("a"), d.get("b")))))
ref = d.get("reference_semantics", "")
m = re.search(r"OText \[(.*?)\]", ref)
print("MODEL ", repr("".join(chr(int(x)) for x in m.group(1).split(";") if x.strip())) if m else ref)
