#!/bin/sh
# tools/seedsweep.sh "<seeds>" "<checks>" : run quick checks with other seeds against /repo;
# evidence files are restored afterwards (evidence must come from the default run).
cd /verif
for s in $1; do for c in $2; do
  cp evidence/$c.json /var/tmp/sweep_ev_$c.json 2>/dev/null
  st=$(date +%s)
  VERIF_SEED=$s ./check $c quick > /var/tmp/sweep_${c}_$s.out 2>&1; rc=$?
  cp /var/tmp/sweep_ev_$c.json evidence/$c.json 2>/dev/null
  echo "seed=$s $c rc=$rc secs=$(( $(date +%s) - st )) viol=$(grep -c VIOLATION /var/tmp/sweep_${c}_$s.out)"
  [ $rc = 0 ] && rm -f /var/tmp/sweep_${c}_$s.out
done; done
