#!/bin/sh
# tools/thorough_pass.sh [ids...]: run the thorough tier of each check against /repo, one after the other.
cd /verif
ids=${*:-C01 C02 C03 C04 C05 C06 C07 C08 C09 C10 C11 C12 C13 C14 C15 C16 C17 C18 C19 C20}
for c in $ids; do
  st=$(date +%s)
  timeout 5400 ./check $c thorough > /var/tmp/thorough_$c.out 2>&1; rc=$?
  echo "$c thorough rc=$rc secs=$(( $(date +%s) - st )) viol=$(grep -c VIOLATION /var/tmp/thorough_$c.out) known=$(grep -c KNOWN-FINDING /var/tmp/thorough_$c.out)"
done
