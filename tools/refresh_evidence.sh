#!/bin/sh
# tools/refresh_evidence.sh: run every quick check with the default seed against /repo (rewrites evidence/*.json)
cd /verif
for c in C01 C02 C03 C04 C05 C06 C07 C08 C09 C10 C11 C12 C13 C14 C15 C16 C17 C18 C19 C20; do
  st=$(date +%s); ./check $c quick > /var/tmp/refresh_$c.out 2>&1; rc=$?
  echo "$c rc=$rc secs=$(( $(date +%s) - st )) viol=$(grep -c VIOLATION /var/tmp/refresh_$c.out) known=$(grep -c KNOWN-FINDING /var/tmp/refresh_$c.out)"
done
